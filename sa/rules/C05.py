"""C05 Kriging estimates solve the kriging equations: LHS/RHS layout agreement, symmetric assembly, chunk locality."""
import ast
import math
from ..small import FoldError, fold, sym_eval, sym_text, _sym_subst

from .. import ordtype as O
from ..loader import AnalysisError, call_name, norm_stmt
from .C16 import signed_factors

KB = "krige/base.py"
KS = "krige/krigesum.pyx"
KM = "krige/methods.py"


def block_stores(fn):
    """[(guard text, row text, col text, value node, stmt, is_aug)] for every `res[R, C] = v` in fn."""
    out = []
    for node in ast.walk(fn):
        if isinstance(node, (ast.Assign, ast.AugAssign)):
            t = node.targets[0] if isinstance(node, ast.Assign) else node.target
            if isinstance(t, ast.Subscript) and ast.unparse(t.value) == "res":
                pc = O.path_condition(fn, node)
                # loop context (functional drifts)
                loop = [n for n in ast.walk(fn) if isinstance(n, ast.For) and any(x is node for x in ast.walk(n))]
                if loop and "self.drift_functions" in ast.unparse(loop[-1].iter):
                    # inside a loop over the drift functions there is at least one: `self.int_drift_no > 0` (= len(self.drift_functions) > 0,
                    # the getter is checked in layout()) is implied and not a distinguishing guard
                    pc = [(e, p) for e, p in pc if not (p and ast.unparse(e) == "self.int_drift_no > 0")]
                guard = " & ".join(("" if p else "not ") + ast.unparse(e) for e, p in pc)
                if loop:
                    guard = (guard + " & " if guard else "") + "for " + ast.unparse(loop[-1].iter)
                sl = t.slice
                if isinstance(sl, ast.Tuple) and len(sl.elts) == 2:
                    r, c = ast.unparse(sl.elts[0]), ast.unparse(sl.elts[1])
                else:
                    r, c = ast.unparse(sl), None
                out.append((guard, r, c, node.value, node, isinstance(node, ast.AugAssign)))
    return out


def layout(ctx, rule="R05.1"):
    _g = ctx.prog.cls(KB, "Krige").getters.get("int_drift_no")
    _r = [ast.unparse(x.value) for x in ast.walk(_g) if isinstance(x, ast.Return)] if _g is not None else []
    ctx.check(_r == ["len(self.drift_functions)"], rule, KB + "::Krige.int_drift_no", "int_drift_no is the number of drift functions (used as an implied guard inside loops over them)", "int-drift-no")
    prog = ctx.prog
    mat = prog.func(KB, "Krige._get_krige_mat")
    vec = prog.func(KB, "Krige._get_krige_vecs")
    ms = block_stores(mat)
    vs = block_stores(vec)
    if len(ms) < 6 or len(vs) < 4:
        raise AnalysisError("anchor vanished: block stores in _get_krige_mat/_get_krige_vecs (%d/%d)" % (len(ms), len(vs)))
    cond_cols = ":self.cond_no"
    lhs_rows = sorted({(g, r) for g, r, c, v, st, aug in ms if c == cond_cols and not aug})
    rhs_rows = sorted({(g.replace("not only_mean", "").replace("only_mean", "").strip(" &"), r) for g, r, c, v, st, aug in vs if c == ":"})
    ctx.check(lhs_rows == rhs_rows, rule, KB + "::Krige._get_krige_mat/_get_krige_vecs",
              "rows of the kriging matrix (against the data columns) and rows of the right-hand side use the same index expressions under the same guards: %s" % lhs_rows, "rows")
    want_rows = [("", ":self.cond_no"), ("for enumerate(self.drift_functions)", "-self.drift_no + i"), ("self.ext_drift_no > 0", "ext_size:"), ("self.unbiased", "self.cond_no")]
    ctx.check(lhs_rows == sorted(want_rows), rule, KB + "::Krige._get_krige_mat",
              "block layout: covariance [:n], unbiasedness row n (iff unbiased), functional drift rows -drift_no+i, external drift rows [size-ext_no:]", "layout")
    ext = {}
    for fn, nm in ((mat, "mat"), (vec, "vec")):
        for n in ast.walk(fn):
            if isinstance(n, ast.Assign) and ast.unparse(n.targets[0]) == "ext_size":
                ext[nm] = ast.unparse(n.value)
    ctx.check(ext.get("mat") == ext.get("vec") == "self.krige_size - self.ext_drift_no", rule, KB, "external-drift block starts at krige_size - ext_drift_no on both sides", "ext-size")
    cm = prog.cls(KB, "Krige")
    ks = [ast.unparse(s.value) for s in cm.getters["krige_size"].body if isinstance(s, ast.Return)]
    dn = [ast.unparse(s.value) for s in cm.getters["drift_no"].body if isinstance(s, ast.Return)]
    ctx.check(ks == ["self.cond_no + self.drift_no + int(self.unbiased)"] and dn == ["self.int_drift_no + self.ext_drift_no"], rule, KB + "::Krige.krige_size", "system size = n + drift_no + [unbiased]; drift_no = functional + external", "size")
    kc = cm.getters["_krige_cond"]
    pad = [ast.unparse(n.value) for n in ast.walk(kc) if isinstance(n, ast.Assign) and ast.unparse(n.targets[0]) == "pad_size"]
    ret = [ast.unparse(s.value) for s in kc.body if isinstance(s, ast.Return)]
    ctx.check(pad == ["self.drift_no + int(self.unbiased)"] and ret == ["np.pad(val, (0, pad_size), mode='constant', constant_values=0)"], rule, KB + "::Krige._krige_cond",
              "the conditioning vector is zero-padded behind by drift_no + [unbiased] (matches the system size)", "pad")
    res_shapes = [ast.unparse(n.value) for fn in (mat, vec) for n in fn.body if isinstance(n, ast.Assign) and ast.unparse(n.targets[0]) == "res"]
    ctx.check(res_shapes == ["np.empty((self.krige_size, self.krige_size), dtype=np.double)", "np.empty((self.krige_size, chunk_size), dtype=np.double)"], rule, KB, "matrix is size x size, right-hand sides size x chunk", "shapes")
    # every row block of the RHS is written on every path (np.empty!): covariance rows in both only_mean branches
    cov_rows = [(g, st) for g, r, c, v, st, aug in vs if r == ":self.cond_no"]
    guards = sorted(g for g, st in cov_rows)
    ctx.check(guards == ["not only_mean", "only_mean"], rule, KB + "::Krige._get_krige_vecs", "covariance rows are filled on both branches (0 for mean estimation, covariances otherwise)", "rhs-complete")
    # get_mean: RHS has the 1 in the unbiasedness slot and requires drift_no == 0
    gm = cm.methods["get_mean"]
    me = [ast.unparse(n.value) for n in ast.walk(gm) if isinstance(n, ast.Assign) and ast.unparse(n.targets[0]) == "mean_est"]
    ctx.check(me == ["np.concatenate((np.full_like(self.cond_val, 0.0), [1]))"], rule, KB + "::Krige.get_mean", "mean estimation uses the right-hand side (0, ..., 0, 1): zero covariances, 1 in the unbiasedness slot", "mean-rhs")
    g0 = [s for s in gm.body if isinstance(s, ast.If) and isinstance(s.body[0], ast.Return)]
    ok = bool(g0) and ast.unparse(g0[0].test) == "not self.has_const_mean and (post_process or self.drift_no > 0)"
    hc = [ast.unparse(s.value) for s in cm.getters["has_const_mean"].body if isinstance(s, ast.Return)]
    ctx.check(ok and hc == ["self.drift_no == 0 and (not callable(self.mean))"], rule, KB + "::Krige.get_mean", "that right-hand side (length n+1) is only used when there are no drift rows", "mean-guard")


def symmetric(ctx, rule="R05.2"):
    prog = ctx.prog
    mat = prog.func(KB, "Krige._get_krige_mat")
    ms = [(g, r, c, v, st) for g, r, c, v, st, aug in block_stores(mat) if c is not None and not aug]
    off = [(g, r, c, v, st) for g, r, c, v, st in ms if r != c and not (r == "self.cond_no:" and c == "self.cond_no:")]
    n = 0
    for g, r, c, v, st in off:
        mirror = [(g2, v2) for g2, r2, c2, v2, st2 in ms if r2 == c and c2 == r and g2 == g]
        vt = ast.unparse(v)
        ok = len(mirror) == 1 and ast.unparse(mirror[0][1]) in (vt, vt + ".T", vt[:-2] if vt.endswith(".T") else "\0")
        n += 1
        ctx.check(ok, rule, KB + "::Krige._get_krige_mat", "block res[%s, %s] = %s has its mirrored block res[%s, %s] under the same guard" % (r, c, vt, c, r), "mirror:%s,%s" % (r, c))
    ctx.floor(rule, "off-diagonal block stores", n, 6)
    # 2-D external drift block: transposed on exactly one side
    ext = [(r, c, ast.unparse(v)) for g, r, c, v, st in off if "ext_size" in r + c]
    ctx.check(sorted(x[2] for x in ext) == ["self.cond_ext_drift", "self.cond_ext_drift.T"], rule, KB + "::Krige._get_krige_mat", "the 2-D external drift block is transposed on exactly one side: %s" % ext, "ext-T")
    # lower right (constraint x constraint) block is zero in the assembled matrix: it is zeroed (np.empty start!) and no store that comes
    # AFTER the zeroing can touch it, i.e. every later store has its row or its column index inside the data range [:cond_no]
    stores = sorted((x for x in ast.walk(mat) if isinstance(x, (ast.Assign, ast.AugAssign)) and ast.unparse(x.targets[0] if isinstance(x, ast.Assign) else x.target).startswith("res[")), key=lambda x: x._ord)
    zero = [x for x in stores if norm_stmt(x) == "res[self.cond_no:, self.cond_no:] = 0"]
    okz = len(zero) == 1 and zero[0] in mat.body
    later_bad = []
    if okz:
        for x in stores:
            if x._ord <= zero[0]._ord:
                continue
            t = x.targets[0] if isinstance(x, ast.Assign) else x.target
            sl = t.slice
            idx = [ast.unparse(e) for e in sl.elts] if isinstance(sl, ast.Tuple) else [ast.unparse(sl)]
            inside = any(i_ in (":self.cond_no", "np.diag_indices(self.cond_no)") for i_ in idx)
            if not inside:
                later_bad.append(norm_stmt(x)[:60])
    ctx.check(okz and not later_bad, rule, KB + "::Krige._get_krige_mat",
              "the constraint/constraint block is zeroed unconditionally (np.empty start) and no later store can reach it%s" % ("" if not later_bad else ": " + "; ".join(later_bad)), "zero-last")
    err = [s for s in ast.walk(mat) if isinstance(s, ast.AugAssign)]
    ctx.check(len(err) == 1 and norm_stmt(err[0]) == "res[np.diag_indices(self.cond_no)] += self.cond_err", rule, KB + "::Krige._get_krige_mat", "measurement error is added on the diagonal of the data block only", "diag-err")
    ret = [ast.unparse(s.value) for s in mat.body if isinstance(s, ast.Return)]
    ctx.check(ret == ["self._inv(res)"], rule, KB + "::Krige._get_krige_mat", "the stored matrix is the (pseudo-)inverse of the assembled system", "inverse")


def covariance_family(ctx, rule="R05.3"):
    prog = ctx.prog
    mat = prog.func(KB, "Krige._get_krige_mat")
    vec = prog.func(KB, "Krige._get_krige_vecs")
    cov = [v for g, r, c, v, st, aug in block_stores(mat) if r == ":self.cond_no" and c == ":self.cond_no" and not aug]
    ok = len(cov) == 1 and isinstance(cov[0], ast.Call) and ast.unparse(cov[0].func) == "self.model.covariance" and ast.unparse(cov[0].args[0]) == "self._get_dists(self._krige_pos)"
    ctx.check(ok, rule, KB + "::Krige._get_krige_mat", "data block = model covariance of the distances between isometrized conditioning positions", "lhs-cov")
    cf = [n for n in ast.walk(vec) if isinstance(n, ast.Assign) and ast.unparse(n.targets[0]) == "cf"]
    ok = len(cf) == 1 and isinstance(cf[0].value, ast.IfExp) and {ast.unparse(cf[0].value.body), ast.unparse(cf[0].value.orelse)} == {"self.model.cov_nugget", "self.model.covariance"}
    ctx.check(ok, rule, KB + "::Krige._get_krige_vecs", "right-hand side uses the same model's covariance family (covariance / nugget-aware covariance), never variogram or correlation", "rhs-cov")
    use = [v for g, r, c, v, st, aug in block_stores(vec) if r == ":self.cond_no" and "not only_mean" in g]
    ok = len(use) == 1 and isinstance(use[0], ast.Call) and ast.unparse(use[0].func) == "cf" and ast.unparse(use[0].args[0]) == "self._get_dists(self._krige_pos, pos, chunk_slice)"
    ctx.check(ok, rule, KB + "::Krige._get_krige_vecs", "covariances between conditioning positions and the targets of this chunk", "rhs-dists")
    gd = prog.func(KB, "Krige._get_dists")
    rets = [ast.unparse(s.value) for s in sorted((x for x in ast.walk(gd) if isinstance(x, ast.Return)), key=lambda x: x._ord)]
    ctx.check(rets == ["cdist(pos1.T, pos1.T)", "cdist(pos1.T, pos2.T[slice(*pos2_slice), ...])"], rule, KB + "::Krige._get_dists", "Euclidean distances between point lists; the slice selects target points", "dists")
    imp = prog.mod(KB).imports.get("cdist")
    ctx.check(imp == "scipy.spatial.distance.cdist", rule, KB, "cdist is scipy.spatial.distance.cdist (Euclidean by default)", "cdist")
    # drift rows: same functions on both sides
    dm = [ast.unparse(n.value) for n in ast.walk(mat) if isinstance(n, ast.Assign) and ast.unparse(n.targets[0]) == "drift_tmp"]
    dv = [ast.unparse(v) for g, r, c, v, st, aug in block_stores(vec) if r == "-self.drift_no + i"]
    ctx.check(dm == ["f(*self.cond_pos)"] and dv == ["f(*chunk_pos)"], rule, KB, "functional drift rows evaluate the same function f at the conditioning resp. target positions", "drift-f")
    ev = [ast.unparse(v) for g, r, c, v, st, aug in block_stores(vec) if r == "ext_size:"]
    ctx.check(ev == ["ext_drift[:, slice(*chunk_slice)]"], rule, KB + "::Krige._get_krige_vecs", "external drift rows take the drift values of this chunk's targets", "ext-rhs")



def kernel_sums(ctx, rule="R05.5"):
    """The summation kernels compute field[k] = sum_i cond[i] sum_j M[i,j] v[j,k] and error[k] = sum_i v[i,k] sum_j M[i,j] v[j,k]."""
    prog = ctx.prog
    # kernels: field = cond^T M v_k ; error = v_k^T M v_k, identical field computation in both kernels
    for kname in ("calc_field_krige_and_variance", "calc_field_krige"):
        k = prog.func(KS, kname)
        aug = {ast.unparse(n.target): n.value for n in ast.walk(k) if isinstance(n, ast.AugAssign)}
        ok = signed_factors(aug.get("krig_fac", ast.Constant(0)))[1] == sorted(["krig_mat[i, j]", "krig_vecs[j, k]"]) and signed_factors(aug.get("field[k]", ast.Constant(0)))[1] == sorted(["cond[i]", "krig_fac"])
        if kname.endswith("variance"):
            ok = ok and signed_factors(aug.get("error[k]", ast.Constant(0)))[1] == sorted(["krig_vecs[i, k]", "krig_fac"])
        ctx.check(ok, rule, "%s::%s" % (KS, kname), "field[k] = sum_i cond[i] sum_j M[i,j] v[j,k]" + ("; error[k] = sum_i v[i,k] sum_j M[i,j] v[j,k]" if kname.endswith("variance") else ""), "kernel-sum")
        z = [n for n in ast.walk(k) if isinstance(n, ast.Assign) and ast.unparse(n.targets[0]) == "krig_fac"]
        loops = [n for n in ast.walk(k) if isinstance(n, ast.For) and ast.unparse(n.target) == "i"]
        ok = len(z) == 1 and isinstance(z[0].value, ast.Constant) and type(z[0].value.value) in (int, float) and z[0].value.value == 0 and len(loops) == 1 and any(s is z[0] for s in loops[0].body)
        ctx.check(ok, rule, "%s::%s" % (KS, kname), "the inner accumulator is reset for every row i", "reset")
        # what is handed back, in the order the Python side unpacks it: (estimate, variance)
        rets = [r for r in ast.walk(k) if isinstance(r, ast.Return) and r.value is not None]
        want = ["np.asarray(field)", "np.asarray(error)"] if kname.endswith("variance") else ["np.asarray(field)"]
        got = [ast.unparse(x) for x in (rets[0].value.elts if len(rets) == 1 and isinstance(rets[0].value, ast.Tuple) else ([rets[0].value] if len(rets) == 1 else []))]
        ctx.check(got == want, rule, "%s::%s" % (KS, kname), "returns %s in the order the caller unpacks (estimate first, then variance)" % got, "return-order")


def chunks(ctx, rule="R05.5", with_kernels=True):
    prog = ctx.prog
    call = prog.func(KB, "Krige.__call__")
    asg = {}
    for n in ast.walk(call):
        if isinstance(n, ast.Assign) and isinstance(n.targets[0], ast.Name):
            asg.setdefault(n.targets[0].id, []).append(ast.unparse(n.value))
    ok = asg.get("chunk_size") == ["pnt_cnt if chunk_size is None else int(chunk_size)"] and asg.get("chunk_no") == ["int(np.ceil(pnt_cnt / chunk_size))"]
    ctx.check(ok, rule, KB + "::Krige.__call__", "chunk size defaults to all points; the number of chunks is ceil(n / chunk size)", "chunk-count")
    # the slices themselves are evaluated for sample sizes: they must tile [0, n) contiguously, whatever arithmetic spells them
    loops = [n for n in ast.walk(call) if isinstance(n, ast.For) and any(isinstance(x, ast.Assign) and ast.unparse(x.targets[0]) == "chunk_slice" for x in n.body)
             and isinstance(n.iter, ast.Call) and getattr(n.iter.func, "id", "") == "range"]
    tiled = None
    if len(loops) == 1:
        lp = loops[0]
        ivar = lp.target.id if isinstance(lp.target, ast.Name) else None
        tiled = True
        samples = 0
        try:
            for n_pts, cs in ((1, 1), (7, 3), (10, 5), (10, 10), (11, 4), (5, 8)):
                chunk_no = int(math.ceil(n_pts / cs))
                cover = []
                base_env = {"pnt_cnt": n_pts, "chunk_size": cs, "chunk_no": chunk_no}
                for i in range(*[int(fold(a, base_env)) for a in lp.iter.args]):
                    env = dict(base_env)
                    env[ivar] = i
                    sl = {}
                    for st in lp.body:
                        if isinstance(st, ast.Assign) and len(st.targets) == 1 and isinstance(st.targets[0], ast.Name):
                            nm, v = st.targets[0].id, st.value
                            if isinstance(v, ast.Call) and getattr(v.func, "id", "") == "slice":
                                if len(v.args) == 1 and isinstance(v.args[0], ast.Starred):
                                    sl[nm] = tuple(env[ast.unparse(v.args[0].value)])
                                else:
                                    sl[nm] = tuple(fold(a, env) for a in v.args)
                                continue
                            try:
                                env[nm] = fold(v, env)
                            except FoldError:
                                pass
                    cs_, c_ = env.get("chunk_slice"), sl.get("c_slice")
                    if cs_ is None or c_ is None or tuple(cs_) != tuple(c_) or len(c_) != 2:
                        tiled = False
                    else:
                        cover.append(tuple(c_))
                    samples += 1
                if cover != [(k * cs, min(n_pts, (k + 1) * cs)) for k in range(chunk_no)]:
                    tiled = False
        except (FoldError, KeyError, TypeError):
            tiled = None
    if tiled is None:
        ctx.undecided(rule, KB + "::Krige.__call__", "chunk slices are not evaluable for sample sizes")
    else:
        ctx.check(tiled, rule, KB + "::Krige.__call__", "chunks are the contiguous, disjoint slices [i*cs, min(n, (i+1)*cs)) for i < ceil(n/cs): they cover every target exactly once (evaluated for 6 sample sizes); the tuple handed to the assembly equals the slice used for the result", "slices")
    loops = [n for n in ast.walk(call) if isinstance(n, ast.For)]
    ok = len(loops) == 1
    body = [norm_stmt(s) for s in loops[0].body] if loops else []
    ok = ok and "k_vec = self._get_krige_vecs(iso_pos, chunk_slice, ext_drift, only_mean)" in body and "self._summate(field, krige_var, c_slice, k_vec, return_var)" in body
    ctx.check(ok, rule, KB + "::Krige.__call__", "each chunk builds its right-hand sides from the same chunk_slice it writes its results to", "same-slice")
    sm = prog.func(KB, "Krige._summate")
    st = [norm_stmt(s) for s in ast.walk(sm) if isinstance(s, ast.Assign)]
    ok = ("(field[c_slice], krige_var[c_slice]) = _calc_field_krige_and_variance(self._krige_mat, k_vec, self._krige_cond)" in st or "field[c_slice], krige_var[c_slice] = _calc_field_krige_and_variance(self._krige_mat, k_vec, self._krige_cond)" in st)
    ok = ok and "field[c_slice] = _calc_field_krige(self._krige_mat, k_vec, self._krige_cond)" in st
    ctx.check(ok, rule, KB + "::Krige._summate", "estimate and variance of a chunk come from one kernel call on (inverse matrix, this chunk's right-hand sides, conditioning vector) and are written to the same slice", "summate")
    vec = prog.func(KB, "Krige._get_krige_vecs")
    # the width of the right-hand-side block, as a symbolic value at the point where the block is allocated
    alloc = [s for s in vec.body if isinstance(s, ast.Assign) and isinstance(s.value, ast.Call) and call_name(s.value) in ("np.empty", "np.zeros")]
    if not alloc:
        raise AnalysisError("anchor vanished: allocation of the right-hand-side block in Krige._get_krige_vecs")
    shape = alloc[0].value.args[0] if alloc[0].value.args else None
    env = sym_eval(vec.body, stop=alloc[0])
    width = sym_text(_sym_subst(shape.elts[1], env)) if isinstance(shape, ast.Tuple) and len(shape.elts) == 2 else "?"
    ctx.check(width == "(len(pos[0]) if chunk_slice[1] is None else chunk_slice[1]) - chunk_slice[0]", rule, KB + "::Krige._get_krige_vecs",
              "right-hand-side width equals the slice length (symbolic value of the second extent: %s)" % width, "width")
    uses = sorted({ast.unparse(n) for n in ast.walk(vec) if isinstance(n, ast.Call) and ast.unparse(n.func) == "slice"})
    ctx.check(uses == ["slice(*chunk_slice)"], rule, KB + "::Krige._get_krige_vecs", "every per-target quantity (drift positions, external drift) is cut with the same chunk_slice", "one-slice")
    if with_kernels:
        kernel_sums(ctx, rule)


def variants(ctx, rule="R05.7"):
    prog = ctx.prog
    want_const = {"Simple": {"unbiased": "False"}, "Ordinary": {}, "Universal": {}, "ExtDrift": {}, "Detrended": {"unbiased": "False"}}
    base_init = prog.func(KB, "Krige.__init__")
    base_params = [a.arg for a in base_init.args.args][1:]
    base_defaults = dict(zip(base_params[len(base_params) - len(base_init.args.defaults):], [ast.unparse(d) for d in base_init.args.defaults]))
    ctx.check(base_defaults.get("unbiased") == "True" and base_defaults.get("cond_err") == "'nugget'" and base_defaults.get("exact") == "False", rule, KB + "::Krige.__init__", "base defaults: unbiased=True, exact=False, cond_err='nugget'", "base-defaults")
    for cname, consts in want_const.items():
        fn = prog.func(KM, cname + ".__init__")
        calls = [n for n in ast.walk(fn) if isinstance(n, ast.Call) and ast.unparse(n.func) == "super().__init__"]
        site = "%s::%s.__init__" % (KM, cname)
        if len(calls) != 1:
            ctx.violation(rule, site, "does not call Krige.__init__ exactly once", "super")
            continue
        c = calls[0]
        params = [a.arg for a in fn.args.args][1:]
        pos = [ast.unparse(a) for a in c.args]
        kw = {k.arg: ast.unparse(k.value) for k in c.keywords}
        ok = pos == ["model", "cond_pos", "cond_val"] and all(k in base_params for k in kw)
        # a keyword that spells out the base class default is the same call as leaving it out
        passed = {k: v for k, v in kw.items() if k not in consts and not (k not in params and base_defaults.get(k) == v)}
        ok = ok and all(k == v for k, v in passed.items()) and set(passed) | {"model", "cond_pos", "cond_val"} == set(params) and {k: kw.get(k) for k in consts} == consts
        ctx.check(ok, rule, site, "forwards every own parameter to Krige.__init__ under the same name; fixed settings: %s" % (consts or "none"), "forward")
        d = dict(zip(params[len(params) - len(fn.args.defaults):], [ast.unparse(x) for x in fn.args.defaults]))
        ctx.check(d.get("cond_err") == "'nugget'" and d.get("exact") == "False", rule, site, "defaults exact=False, cond_err='nugget' as in the base class", "defaults")
    init = prog.func(KB, "Krige.__init__")
    body = [norm_stmt(s) for s in init.body]
    ok = body.index("self.set_drift_functions(drift_functions)") < body.index("self.set_condition(cond_pos, cond_val, ext_drift, cond_err, fit_normalizer, fit_variogram)")
    ctx.check(ok, rule, KB + "::Krige.__init__", "drift functions are set before the kriging matrix is assembled", "init-order")


def run(ctx):
    from .C18 import get_mean_pipeline, mirror_pipelines

    get_mean_pipeline(ctx, rule="R05.14")  # the kriged mean leaves through the same pipeline as the fields (shared with C18)

    mirror_pipelines(ctx, rule="R05.13")  # the data vector of the system is the conditioning values taken through the exact inverse of what post_field applies (shared with C06 / C18)
    from .C14 import no_shared_fields

    no_shared_fields(ctx, "R05.12", "krige/base.py", "Krige", {"_cond_pos", "_cond_val"}, floor=2)  # matrix is built once, data re-read on every call
    from . import C15_kernels as _K

    # the summation kernels compute the full sums k^T K^-1 y and k^T K^-1 k: loop extents, accumulator resets, zero-initialised outputs, no guards (shared with C15)
    _K.accumulator_reset(ctx, rule="R05.11")
    _K.accumulator_complete(ctx, rule="R05.11")
    _K.build_independent(ctx, rule="R05.11")
    _K.kernel_shape(ctx, rule="R05.11")
    _K.full_extent(ctx, rule="R05.11")
    _K.zero_init(ctx, rule="R05.11")
    from . import C15_bounds
    from .C15 import inputs_not_written

    C15_bounds.run(ctx, rule="R05.11", files=("krige/krigesum.pyx",), floor=10)  # an index outside / on the wrong axis reads other memory than the sum is defined over
    inputs_not_written(ctx, rule="R05.11", files=("krige/krigesum.pyx",))
    _K.double_precision(ctx, rule="R05.11")  # single-precision accumulators / phases lose the exactness the property states
    _K.branch_free_krige_sums(ctx, rule="R05.11")
    from ..small import none_default_rule
    from .C20 import closure_rule

    closure_rule(ctx, rule="R05.9", prefix="krige/", floor=1)  # drift monomials are evaluated on the stored conditioning positions: they must not write into them

    none_default_rule(ctx, "R05.8", ["krige/"], 10)
    layout(ctx)
    symmetric(ctx)
    covariance_family(ctx)
    from .C12 import frames

    frames(ctx, rule="R05.4")
    chunks(ctx)
    krige_state(ctx)
    variants(ctx)
    return (
        "Decides the structural clauses of C05: (R05.1) kriging matrix and right-hand sides use the same row layout under the same guards, sizes and paddings agree; (R05.2) every off-diagonal block has its "
        "mirrored block (system symmetric by construction), constraint block zeroed last, measurement error on the data diagonal only; (R05.3) both sides use the same model's covariance family on distances between "
        "isometrized positions, drift rows use the same functions; (R05.4) coordinate frames of all sinks; (R05.5) chunks are disjoint contiguous slices, each chunk's results come from its own right-hand sides; "
        "kernel index structure field = c^T M v, var = v^T M v; (R05.7) the five variants forward their parameters unchanged. NOT decided: numerical equality with a direct solve, linearity/unbiasedness as values."
        ' (R05.11-R05.14) kernel sums, bounds, own input data, allocation and exits of the kriging kernels; the data vector and the kriged mean go through the exact inverse / forward output pipeline; R05.6 also on exits by `raise` (3 known findings).'
    )


# ---------------------------------------------------------------------------------------- derived kriging state
def krige_state(ctx, rule="R05.6", raise_exits=True):
    """_krige_pos and _krige_mat are recomputed from the current conditions AND the current model on every path of the
    documented refresh set_condition() (the model may have been changed in place by the caller beforehand)."""
    from .. import state
    from ..state import Edge as E

    prog = ctx.prog
    ci = prog.cls(KB, "Krige")
    edges = [
        E("_krige_pos", "_cond_pos"), E("_krige_pos", "_model"),
        E("_krige_mat", "_krige_pos"), E("_krige_mat", "_cond_err"), E("_krige_mat", "_cond_ext_drift"), E("_krige_mat", "_model"),
    ]
    entries = [("Krige.set_condition", ci.methods["set_condition"], ci)]
    st = state.coherence(
        ctx, rule, ci, edges, entries=entries, rel=KB,
        mutating_calls={"self.model.fit_variogram": "_model", "self.normalizer.fit": "_normalizer"},
        init_ver={"_model": "changed-before-call"}, raise_exits=raise_exits,
    )
    ctx.floor(rule, "paths through set_condition", st["paths"], 50)
    for f in ("_krige_pos", "_krige_mat", "_cond_pos", "_cond_err", "_cond_ext_drift"):
        if f not in st["fields_written"]:
            raise AnalysisError("anchor vanished: set_condition no longer writes %s" % f)
    ctx.note(rule, "cond_err.setter and set_drift_functions change inputs of the kriging matrix without rebuilding it; the documented refresh is set_condition()")
