"""E10 small engines: PARITY (symmetry under an exchange), FOLD (constant folding), LINT-IS, SWAP."""
import ast
import copy
import math

from .loader import AnalysisError

EVEN, ODD, TOP = "even", "odd", "unknown"


def _mul(a, b):
    if TOP in (a, b):
        return TOP
    return EVEN if a == b else ODD


EVEN_FUNCS = {"cos", "fabs", "abs", "np.abs", "np.cos"}  # f(-x) = f(x)
ODD_FUNCS = {"sin", "np.sin", "tan", "atan"}  # f(-x) = -f(x)
ANY_FUNCS = {"sqrt", "np.sqrt", "acos", "atan2", "exp", "log"}  # symmetric iff all args symmetric


class Parity:
    """Parity of expressions under a transformation T of the inputs.

    Mode 'negate' : T negates the single parameter `x` (is f(-x) == f(x)?).
    Mode 'swap'   : T exchanges the two index parameters i and j (is d(i, j) == d(j, i)?).
    EVEN = invariant under T, ODD = changes sign under T.
    """

    def __init__(self, mode, a, b=None):
        self.mode, self.a, self.b = mode, a, b
        self.env = {}

    def swap_text(self, e):
        class Sw(ast.NodeTransformer):
            def visit_Name(s, n):
                if n.id == self.a:
                    return ast.copy_location(ast.Name(self.b, n.ctx), n)
                if n.id == self.b:
                    return ast.copy_location(ast.Name(self.a, n.ctx), n)
                return n

        import copy

        return ast.unparse(Sw().visit(copy.deepcopy(e)))

    def par(self, e):
        if isinstance(e, ast.Constant):
            return EVEN
        if isinstance(e, ast.Name):
            if e.id in self.env:
                return self.env[e.id]
            if self.mode == "negate":
                return ODD if e.id == self.a else EVEN
            return TOP if e.id in (self.a, self.b) else EVEN
        if isinstance(e, ast.Attribute):
            return EVEN
        if isinstance(e, ast.Subscript):
            names = {n.id for n in ast.walk(e.slice) if isinstance(n, ast.Name)}
            if self.mode == "swap" and names & {self.a, self.b}:
                return TOP
            if self.mode == "negate" and self.a in names:
                return TOP
            return EVEN
        if isinstance(e, ast.UnaryOp) and isinstance(e.op, (ast.USub, ast.UAdd)):
            return self.par(e.operand)
        if isinstance(e, ast.BinOp):
            if isinstance(e.op, ast.Sub) and self.mode == "swap":
                # x(i) - x(j): antisymmetric iff the operands are swap images of each other
                if self.swap_text(e.left) == ast.unparse(e.right):
                    return ODD
            if isinstance(e.op, (ast.Mult, ast.Div)):
                if self.mode == "swap" and isinstance(e.op, ast.Mult) and self.swap_text(e.left) == ast.unparse(e.right):
                    return EVEN  # g(i) * g(j)
                return _mul(self.par(e.left), self.par(e.right))
            if isinstance(e.op, (ast.Add, ast.Sub)):
                if self.mode == "swap" and isinstance(e.op, ast.Add) and self.swap_text(e.left) == ast.unparse(e.right):
                    return EVEN
                a, b = self.par(e.left), self.par(e.right)
                return a if a == b else TOP
            if isinstance(e.op, ast.Pow):
                base = self.par(e.left)
                if isinstance(e.right, ast.Constant) and isinstance(e.right.value, int):
                    if base == TOP:
                        return TOP
                    return EVEN if (e.right.value % 2 == 0 or base == EVEN) else ODD
                return EVEN if base == EVEN and self.par(e.right) == EVEN else TOP
            return TOP
        if isinstance(e, ast.Call):
            fn = ast.unparse(e.func)
            args = [self.par(a) for a in e.args]
            if TOP in args:
                return TOP
            if fn == "pow" and len(e.args) == 2 and isinstance(e.args[1], ast.Constant) and isinstance(e.args[1].value, int):
                return EVEN if (e.args[1].value % 2 == 0 or args[0] == EVEN) else ODD
            if fn in EVEN_FUNCS:
                return EVEN
            if fn in ODD_FUNCS:
                return args[0]
            if fn in ANY_FUNCS:
                return EVEN if all(a == EVEN for a in args) else TOP
            return TOP
        return TOP

    def run_function(self, fn):
        """Flow-insensitive-in-loops pass over a straight-line helper; returns parity of the returned value."""
        ret = []

        def walk(stmts):
            for st in stmts:
                if isinstance(st, ast.Assign) and len(st.targets) == 1 and isinstance(st.targets[0], ast.Name):
                    self.env[st.targets[0].id] = self.par(st.value)
                elif isinstance(st, ast.AugAssign) and isinstance(st.target, ast.Name):
                    cur = self.env.get(st.target.id, TOP)
                    v = self.par(st.value)
                    if isinstance(st.op, (ast.Add, ast.Sub)):
                        self.env[st.target.id] = cur if cur == v else TOP
                    elif isinstance(st.op, (ast.Mult, ast.Div)):
                        self.env[st.target.id] = _mul(cur, v)
                    else:
                        self.env[st.target.id] = TOP
                elif isinstance(st, ast.For):
                    walk(st.body)
                    walk(st.body)  # second pass: loop-carried values reach a fixpoint (lattice height 2)
                elif isinstance(st, ast.If):
                    raise AnalysisError("parity: branch in helper not supported")
                elif isinstance(st, ast.Return):
                    ret.append(self.par(st.value))
                elif isinstance(st, (ast.Pass, ast.Expr)):
                    pass
                else:
                    raise AnalysisError("parity: unsupported statement %s" % type(st).__name__)

        walk(fn.body)
        if not ret:
            return TOP
        return ret[0] if all(r == ret[0] for r in ret) else TOP


# ------------------------------------------------------------------ FOLD
class FoldError(Exception):
    pass


def fold(e, env):
    """Constant-fold a closed arithmetic/boolean expression; env maps Name ids / attribute texts to numbers."""
    if isinstance(e, ast.Constant):
        return e.value
    t = ast.unparse(e)
    if t in env:
        return env[t]
    if t in ("np.pi", "math.pi"):
        return math.pi
    if t in ("np.inf", "math.inf"):
        return math.inf
    if isinstance(e, ast.Name):
        raise FoldError("free name %s" % e.id)
    if isinstance(e, ast.UnaryOp):
        v = fold(e.operand, env)
        if isinstance(e.op, ast.USub):
            return -v
        if isinstance(e.op, ast.UAdd):
            return +v
        if isinstance(e.op, ast.Not):
            return not v
    if isinstance(e, ast.BinOp):
        a, b = fold(e.left, env), fold(e.right, env)
        ops = {ast.Add: lambda: a + b, ast.Sub: lambda: a - b, ast.Mult: lambda: a * b, ast.Div: lambda: a / b,
               ast.FloorDiv: lambda: a // b, ast.Pow: lambda: a ** b, ast.Mod: lambda: a % b}
        for k, f in ops.items():
            if isinstance(e.op, k):
                return f()
    if isinstance(e, ast.BoolOp):
        vals = [fold(v, env) for v in e.values]
        return all(vals) if isinstance(e.op, ast.And) else any(vals)
    if isinstance(e, ast.Compare):
        left = fold(e.left, env)
        res = True
        for op, c in zip(e.ops, e.comparators):
            r = fold(c, env)
            table = {ast.Lt: left < r if not isinstance(op, (ast.In, ast.NotIn)) else None}
            if isinstance(op, ast.Lt):
                ok = left < r
            elif isinstance(op, ast.LtE):
                ok = left <= r
            elif isinstance(op, ast.Gt):
                ok = left > r
            elif isinstance(op, ast.GtE):
                ok = left >= r
            elif isinstance(op, ast.Eq):
                ok = left == r
            elif isinstance(op, ast.NotEq):
                ok = left != r
            elif isinstance(op, ast.In):
                ok = left in r
            elif isinstance(op, ast.NotIn):
                ok = left not in r
            else:
                raise FoldError("compare op")
            del table
            res = res and ok
            left = r
        return res
    if isinstance(e, ast.IfExp):
        return fold(e.body, env) if fold(e.test, env) else fold(e.orelse, env)
    if isinstance(e, (ast.List, ast.Tuple)):
        return [fold(x, env) for x in e.elts]
    if isinstance(e, ast.Call):
        fn = ast.unparse(e.func)
        args = [fold(a, env) for a in e.args]
        if fn in ("float", "int", "abs", "max", "min", "bool"):
            return {"float": float, "int": int, "abs": abs, "max": max, "min": min, "bool": bool}[fn](*args)
        if fn in ("np.sqrt", "math.sqrt"):
            return math.sqrt(args[0])
        if fn in ("np.ceil", "math.ceil"):
            return math.ceil(args[0])
        if fn in ("np.floor", "math.floor"):
            return math.floor(args[0])
    raise FoldError("cannot fold %s" % t)


# ------------------------------------------------------------------ def-use
def last_def_before(fn, name, lineno):
    """Last assignment statement to `name` (Assign/AugAssign/For target) that precedes position `lineno` (a node._ord) in fn, or None
    (= the parameter's value).  Adequate for the straight-line preprocessing code it is applied to."""
    best = None
    for n in ast.walk(fn):
        tgts = []
        if isinstance(n, ast.Assign):
            for t in n.targets:
                tgts += list(t.elts) if isinstance(t, (ast.Tuple, ast.List)) else [t]
        elif isinstance(n, ast.AugAssign):
            tgts = [n.target]
        for t in tgts:
            if isinstance(t, ast.Name) and t.id == name and n._ord < lineno and (best is None or n._ord > best._ord):
                best = n
    return best


def resolved_values(fn, e, depth=4):
    """Values an expression may denote when plain local names are followed through their assignments (`top = sill` / `top = bounds[1]` in
    the two arms of an if -> both values; a helper-inlining temporary `low__h1 = x` -> x).  Returns [expression node]; names with no or
    non-simple definitions (loop variables, parameters, augmented) stay as they are."""
    if depth == 0 or not isinstance(e, ast.Name):
        return [e]
    params = {a.arg for n in ast.walk(fn) if isinstance(n, ast.arguments) for a in n.posonlyargs + n.args + n.kwonlyargs}
    if e.id in params:
        return [e]
    defs = []
    for n in ast.walk(fn):
        if isinstance(n, ast.Assign) and len(n.targets) == 1 and isinstance(n.targets[0], ast.Name) and n.targets[0].id == e.id:
            defs.append(n.value)
        elif isinstance(n, (ast.AugAssign, ast.For, ast.comprehension, ast.NamedExpr, ast.With)) and any(isinstance(x, ast.Name) and x.id == e.id and isinstance(x.ctx, ast.Store) for x in ast.walk(n.target if hasattr(n, "target") else n)):
            return [e]
        elif isinstance(n, ast.Assign) and any(isinstance(x, ast.Name) and x.id == e.id for t in n.targets if isinstance(t, (ast.Tuple, ast.List)) for x in t.elts):
            return [e]
    if not defs:
        return [e]
    out = []
    for d in defs:
        out += resolved_values(fn, d, depth - 1)
    return out


def cond_defaults(stmts, var):
    """[(test text, value node)] of the top-level statements `if test: var = value` (no else).  The loader normalises the
    conditional-expression spelling `var = value if test else var` to this form, so both are covered."""
    out = []
    for s in stmts:
        if isinstance(s, ast.If) and not s.orelse and len(s.body) == 1 and isinstance(s.body[0], ast.Assign) \
                and len(s.body[0].targets) == 1 and isinstance(s.body[0].targets[0], ast.Name) and s.body[0].targets[0].id == var:
            out.append((ast.unparse(s.test), s.body[0].value))
    return out


def expanded_keywords(fn, call):
    """{keyword: value node} of a call, with `**name` expanded when `name` is a local assigned exactly once from `dict(k=v, ...)` or a
    `{"k": v}` literal and never mutated.  Returns (mapping, unexpanded) where unexpanded lists the `**expr` texts that were left."""
    out, rest = {}, []
    for k in call.keywords:
        if k.arg is not None:
            out[k.arg] = k.value
            continue
        v = k.value
        if isinstance(v, ast.Name):
            defs = [n for n in ast.walk(fn) if isinstance(n, ast.Assign) and any(isinstance(t, ast.Name) and t.id == v.id for t in n.targets)]
            stores = sum(1 for n in ast.walk(fn) if isinstance(n, ast.Name) and n.id == v.id and isinstance(n.ctx, (ast.Store, ast.Del)))
            mut = any((isinstance(n, ast.Subscript) and isinstance(n.ctx, (ast.Store, ast.Del)) and isinstance(n.value, ast.Name) and n.value.id == v.id)
                      or (isinstance(n, ast.Call) and isinstance(n.func, ast.Attribute) and isinstance(n.func.value, ast.Name) and n.func.value.id == v.id
                          and n.func.attr in ("update", "pop", "setdefault", "clear", "popitem")) for n in ast.walk(fn))
            if len(defs) == 1 and stores == 1 and not mut:
                dv = defs[0].value
                if isinstance(dv, ast.Call) and getattr(dv.func, "id", "") == "dict" and not dv.args and all(x.arg for x in dv.keywords):
                    out.update({x.arg: x.value for x in dv.keywords})
                    continue
                if isinstance(dv, ast.Dict) and all(isinstance(x, ast.Constant) and isinstance(x.value, str) for x in dv.keys):
                    out.update({x.value: y for x, y in zip(dv.keys, dv.values)})
                    continue
        rest.append(ast.unparse(v))
    return out, rest


_NEG = {ast.NotEq: ast.Eq, ast.IsNot: ast.Is, ast.NotIn: ast.In, ast.Eq: ast.NotEq, ast.Is: ast.IsNot, ast.In: ast.NotIn}


def negation_text(text):
    e = ast.parse(text, mode="eval").body
    if isinstance(e, ast.UnaryOp) and isinstance(e.op, ast.Not):
        return ast.unparse(e.operand)
    if isinstance(e, ast.Compare) and len(e.ops) == 1 and type(e.ops[0]) in _NEG:
        return ast.unparse(ast.Compare(e.left, [_NEG[type(e.ops[0])]()], e.comparators))
    return ast.unparse(ast.UnaryOp(ast.Not(), e))


def arms(node, cond):
    """(statements run when `cond` holds, statements run otherwise) of an if statement testing cond or its negation, else None.
    Works for both orientations (the loader gives two-armed conditionals a positive test)."""
    t = ast.unparse(node.test)
    if t == cond:
        return node.body, node.orelse
    if t == negation_text(cond):
        return node.orelse, node.body
    return None


def find_ifs(stmts, cond):
    """[(if node, arm when cond holds, arm otherwise)] among the given statements."""
    out = []
    for s in stmts:
        if isinstance(s, ast.If):
            a = arms(s, cond)
            if a is not None:
                out.append((s, a[0], a[1]))
    return out


def ifexp_arms(e, cond):
    """(value when cond holds, value otherwise) of a conditional expression on cond or its negation, else None."""
    if not isinstance(e, ast.IfExp):
        return None
    t = ast.unparse(e.test)
    if t == cond:
        return e.body, e.orelse
    if t == negation_text(cond):
        return e.orelse, e.body
    return None


def flag_definitions(fn):
    """{flag: condition node} for `if C: flag = True ... else: flag = False ...` (the loader's normal form of `flag = C; if flag:`),
    provided these are the only stores of the flag."""
    out = {}
    for n in ast.walk(fn):
        if isinstance(n, ast.If) and n.orelse:
            def consts(arm):
                return {s.targets[0].id: s.value.value for s in arm if isinstance(s, ast.Assign) and len(s.targets) == 1 and isinstance(s.targets[0], ast.Name)
                        and isinstance(s.value, ast.Constant) and isinstance(s.value.value, bool)}
            a, b = consts(n.body), consts(n.orelse)
            for nm in set(a) & set(b):
                stores = sum(1 for x in ast.walk(fn) if isinstance(x, ast.Name) and x.id == nm and isinstance(x.ctx, (ast.Store, ast.Del)))
                if stores == 2 and a[nm] != b[nm]:
                    out[nm] = n.test if a[nm] else ast.UnaryOp(ast.Not(), n.test)
    return out


def divides_by(node, var, divisor_name):
    """`var = var / <expr mentioning divisor_name>` or `var /= <...>` (the in-place spelling is an aliasing matter, decided by C20)."""
    if isinstance(node, ast.Assign) and len(node.targets) == 1 and ast.unparse(node.targets[0]) == var and isinstance(node.value, ast.BinOp) \
            and isinstance(node.value.op, ast.Div) and ast.unparse(node.value.left) == var:
        return any(isinstance(n, ast.Name) and n.id == divisor_name for n in ast.walk(node.value.right))
    if isinstance(node, ast.AugAssign) and isinstance(node.op, ast.Div) and ast.unparse(node.target) == var:
        return any(isinstance(n, ast.Name) and n.id == divisor_name for n in ast.walk(node.value))
    return False


class UnrollError(Exception):
    pass


def _int(e, env):
    try:
        v = fold(e, env)
    except FoldError as ex:
        raise UnrollError("bound is not a constant under %s: %s" % (env, ex))
    if isinstance(v, float) and v == int(v):
        v = int(v)
    if not isinstance(v, int):
        raise UnrollError("bound is not an integer: %s" % ast.unparse(e))
    return v


def seq_elements(e, lens, env):
    """Element expressions of a sequence expression of statically known length: NAME (length from `lens`) or NAME[a:b] with constant
    bounds.  Elements are `NAME[k]` with concrete non-negative k."""
    if isinstance(e, ast.Name) and e.id in lens:
        return [ast.Subscript(ast.Name(e.id, ast.Load()), ast.Constant(k), ast.Load()) for k in range(lens[e.id])]
    if isinstance(e, ast.Subscript) and isinstance(e.value, ast.Name) and e.value.id in lens and isinstance(e.slice, ast.Slice) and e.slice.step is None:
        n = lens[e.value.id]
        lo = 0 if e.slice.lower is None else _int(e.slice.lower, env)
        hi = n if e.slice.upper is None else _int(e.slice.upper, env)
        idx = list(range(n))[lo:hi]
        return [ast.Subscript(ast.Name(e.value.id, ast.Load()), ast.Constant(k), ast.Load()) for k in idx]
    raise UnrollError("not a sequence of known length: %s" % ast.unparse(e))


def unroll_for(loop, lens, env=None):
    """Per-iteration bindings {loop variable: expression node} of `for <target> in <iter>` for range / enumerate / zip / plain sequences
    whose lengths are known (lens: {name: length}; env: integer values of names used in bounds).  Static unrolling: nothing is executed."""
    env = dict(env or {})
    for nm, ln in lens.items():
        env["len(%s)" % nm] = ln
    it = loop.iter

    def items(e):
        if isinstance(e, ast.Call) and isinstance(e.func, ast.Name):
            if e.func.id == "range" and not e.keywords and 1 <= len(e.args) <= 3:
                a = [_int(x, env) for x in e.args]
                return [ast.Constant(k) for k in range(*a)]
            if e.func.id == "enumerate" and len(e.args) == 1 and not e.keywords:
                return [ast.Tuple([ast.Constant(k), x], ast.Load()) for k, x in enumerate(items(e.args[0]))]
            if e.func.id == "zip" and e.args and not e.keywords:
                cols = [items(a) for a in e.args]
                return [ast.Tuple(list(row), ast.Load()) for row in zip(*cols)]
        return seq_elements(e, lens, env)

    out = []
    for item in items(it):
        b = {}

        def bind(t, v):
            if isinstance(t, ast.Name):
                b[t.id] = v
            elif isinstance(t, (ast.Tuple, ast.List)) and isinstance(v, ast.Tuple) and len(t.elts) == len(v.elts):
                for tt, vv in zip(t.elts, v.elts):
                    bind(tt, vv)
            else:
                raise UnrollError("cannot bind loop target %s" % ast.unparse(t))

        bind(loop.target, item)
        out.append(b)
    return out


def subst_fold(node, binding, lens=None):
    """Substitute loop variables by their per-iteration expressions and fold constant index arithmetic (x[1 + 1] -> x[2], x[-1] -> x[n-1])."""
    import copy as _copy

    lens = lens or {}

    class T(ast.NodeTransformer):
        def visit_Name(self, nd):
            if nd.id in binding and isinstance(nd.ctx, ast.Load):
                return _copy.deepcopy(binding[nd.id])
            return nd

        def visit_Subscript(self, nd):
            self.generic_visit(nd)
            if not isinstance(nd.slice, (ast.Slice, ast.Tuple)):
                try:
                    idx = fold(nd.slice, {})
                except FoldError:
                    return nd
                if isinstance(idx, float) and idx == int(idx):
                    idx = int(idx)
                if isinstance(idx, int):
                    if idx < 0 and isinstance(nd.value, ast.Name) and nd.value.id in lens:
                        idx += lens[nd.value.id]
                    nd.slice = ast.Constant(idx)
            return nd

    return ast.fix_missing_locations(T().visit(_copy.deepcopy(node)))


def exclusive(fn, a, b):
    """Are nodes a and b in different arms of one if statement (so that no single pass through the code runs both)?"""
    def arms_of(x):
        out = {}

        def rec(node):
            if node is x:
                return True
            if isinstance(node, ast.If):
                for arm in ("body", "orelse"):
                    for st in getattr(node, arm):
                        if rec(st):
                            out[id(node)] = arm
                            return True
                return any(rec(c) for c in ast.walk(node.test)) and False
            for c in ast.iter_child_nodes(node):
                if rec(c):
                    return True
            return False

        rec(fn)
        return out

    da, db = arms_of(a), arms_of(b)
    return any(k in db and db[k] != v for k, v in da.items())


def truthiness_uses(fn, name):
    """Loads of `name` used as a truth value: operand of and/or/not, or the test of if/while/conditional expression."""
    parents = {}
    for p in ast.walk(fn):
        for c in ast.iter_child_nodes(p):
            parents[c] = p
    out = []
    for n in ast.walk(fn):
        if isinstance(n, ast.Name) and n.id == name and isinstance(n.ctx, ast.Load):
            p = parents.get(n)
            if isinstance(p, ast.BoolOp) or (isinstance(p, ast.UnaryOp) and isinstance(p.op, ast.Not)) or (isinstance(p, (ast.If, ast.IfExp, ast.While)) and p.test is n):
                out.append(p)
    return out


def none_default_rule(ctx, rule, prefixes, floor):
    """A parameter whose default is None means 'not given' and must be recognised with `is None`: a truthiness test would also take
    0, 0.0, '' or an empty array for 'not given' (a mean of exactly 0, a zero seed, ...)."""
    n = 0
    for m, q, f, ci, kind in ctx.prog.all_functions():
        if m.pyx is not None or not m.relpath.startswith(tuple(prefixes)):
            continue
        a = f.args
        pos = a.posonlyargs + a.args
        dfl = dict(zip([x.arg for x in pos[len(pos) - len(a.defaults):]], a.defaults))
        dfl.update({x.arg: d for x, d in zip(a.kwonlyargs, a.kw_defaults) if d is not None})
        for nm, d in dfl.items():
            is_none = isinstance(d, ast.Constant) and d.value is None
            is_num = (isinstance(d, ast.Constant) and isinstance(d.value, (int, float)) and not isinstance(d.value, bool)) or ast.unparse(d) in ("np.nan", "np.inf", "-np.inf")
            if is_none or is_num:
                n += 1
                for u in truthiness_uses(f, nm):
                    why = "defaults to None ('not given')" if is_none else "is a number (default %s)" % ast.unparse(d)
                    ctx.violation(rule, "%s::%s" % (m.relpath, q), "parameter `%s` %s but is tested by truthiness in `%s`: a given value of 0 / 0.0 / an empty array is then treated as missing"
                                  % (nm, why, " ".join(ast.unparse(u).split())[:90]), "truthy:%s:%s" % (nm, " ".join(ast.unparse(u).split())[:60]))
    ctx.floor(rule, "None-default parameters inspected", n, floor)
    ctx.ok(rule, ",".join(prefixes), "%d None-default / numeric parameters are never tested by truthiness" % n)


def call_arg(call, index, name):
    """Argument bound to the parameter at `index` / called `name` (positional or keyword spelling)."""
    if len(call.args) > index and not any(isinstance(a, ast.Starred) for a in call.args[:index + 1]):
        return call.args[index]
    for k in call.keywords:
        if k.arg == name:
            return k.value
    return None


def pad_side(call):
    """np.pad(arr, (a, b), mode, ...) -> (side, mode text, amount text): side 'behind' when a == 0, 'front' when b == 0."""
    w = call_arg(call, 1, "pad_width")
    mode = call_arg(call, 2, "mode")
    mode_t = mode.value if isinstance(mode, ast.Constant) else (ast.unparse(mode) if mode is not None else "constant")
    if not (isinstance(w, ast.Tuple) and len(w.elts) == 2):
        return None, mode_t, None
    a, b = w.elts
    za = isinstance(a, ast.Constant) and a.value == 0
    zb = isinstance(b, ast.Constant) and b.value == 0
    if za and not zb:
        return "behind", mode_t, ast.unparse(b)
    if zb and not za:
        return "front", mode_t, ast.unparse(a)
    return "both", mode_t, ast.unparse(w)


# ---------------------------------------------------------------- symbolic straight-line evaluation
class _SymFound(Exception):
    def __init__(self, env):
        self.env = env


def _sym_subst(e, env):
    class S(ast.NodeTransformer):
        def visit_Name(self, n):
            if isinstance(n.ctx, ast.Load) and n.id in env and env[n.id] is not None:
                return copy.deepcopy(env[n.id])
            return n

        def visit_Lambda(self, n):
            return n

    return S().visit(copy.deepcopy(e))


def _sym_root(t):
    while isinstance(t, (ast.Attribute, ast.Subscript, ast.Starred)):
        t = t.value
    return t.id if isinstance(t, ast.Name) else None


def sym_eval(stmts, env=None, stop=None, opaque=(), element_stores_kill=True):
    """Symbolic value of the plain locals of a statement list, independent of how the computation is spread over statements:
    names are followed through assignments, augmented assignments become binary operations, tuple assignments are split, an `if`
    gives `a if test else b` for every name its arms leave different (an arm that returns/raises contributes nothing).  Returns
    {name: expression node} just before the statement `stop` (by identity, searched in nested ifs as well) or at the end of the list;
    a name stored in a loop / with / try body, or whose object is mutated through a subscript or attribute store, maps to None
    (unknown from there on).  Nothing is executed."""
    env = dict(env or {})
    env["\0opaque"] = frozenset(opaque)  # names kept as symbols (never replaced by their definitions)
    if not element_stores_kill:
        env["\0keep"] = True  # x[i] = v leaves what is known about x (used for questions about dtype / provenance, not about values)
    try:
        out = _sym_block(stmts, env, stop)
    except _SymFound as f:
        out = f.env
    out = out if out is not None else env
    out.pop("\0opaque", None)
    out.pop("\0keep", None)
    return out


def _sym_kill(node, env):
    for n in ast.walk(node):
        if isinstance(n, ast.Name) and isinstance(n.ctx, (ast.Store, ast.Del)):
            env[n.id] = None
        elif isinstance(n, (ast.Attribute, ast.Subscript)) and isinstance(n.ctx, (ast.Store, ast.Del)):
            r = _sym_root(n)
            if r is not None and r != "self" and not env.get("\0keep"):
                env[r] = None


def _sym_block(stmts, env, stop):
    """returns the environment at the end of the block, or None when every path through it ended in return / raise"""
    for s in stmts:
        if s is stop:
            raise _SymFound(env)
        if isinstance(s, (ast.Return, ast.Raise, ast.Continue, ast.Break)):
            return None
        if isinstance(s, ast.Assign):
            val = _sym_subst(s.value, env)
            for t in s.targets:
                if isinstance(t, ast.Name):
                    env[t.id] = None if t.id in env.get("\0opaque", ()) else val
                elif isinstance(t, (ast.Tuple, ast.List)) and isinstance(val, (ast.Tuple, ast.List)) and len(t.elts) == len(val.elts) \
                        and all(isinstance(x, ast.Name) for x in t.elts):
                    for x, v in zip(t.elts, val.elts):
                        env[x.id] = v
                else:
                    _sym_kill(t, env)
            continue
        if isinstance(s, ast.AnnAssign) and isinstance(s.target, ast.Name) and s.value is not None:
            env[s.target.id] = _sym_subst(s.value, env)
            continue
        if isinstance(s, ast.AugAssign):
            if isinstance(s.target, ast.Name) and env.get(s.target.id, 0) is not None:
                cur = env.get(s.target.id) or ast.Name(s.target.id, ast.Load())
                env[s.target.id] = ast.BinOp(copy.deepcopy(cur), s.op, _sym_subst(s.value, env))
            else:
                _sym_kill(s.target, env)
            continue
        if isinstance(s, ast.If):
            test = _sym_subst(s.test, env)
            ea, eb = dict(env), dict(env)
            ra = _sym_block(s.body, ea, stop)
            rb = _sym_block(s.orelse, eb, stop)
            if ra is None and rb is None:
                return None
            if ra is None:
                env.clear()
                env.update(eb)
                continue
            if rb is None:
                env.clear()
                env.update(ea)
                continue
            for k in (set(ea) | set(eb)) - {"\0opaque", "\0keep"}:
                a, b = ea.get(k, ast.Name(k, ast.Load())), eb.get(k, ast.Name(k, ast.Load()))
                if a is None or b is None:
                    env[k] = None
                elif ast.dump(a) == ast.dump(b):
                    env[k] = a
                else:
                    env[k] = ast.IfExp(copy.deepcopy(test), a, b)
            continue
        if isinstance(s, (ast.FunctionDef, ast.ClassDef, ast.Import, ast.ImportFrom, ast.Pass, ast.Global, ast.Nonlocal, ast.Assert)):
            continue
        if isinstance(s, ast.Expr):
            # a call may mutate its receiver (x.append(..)); arguments are taken as not mutated
            for n in ast.walk(s):
                if isinstance(n, ast.Call) and isinstance(n.func, ast.Attribute):
                    r = _sym_root(n.func.value)
                    if r is not None and r != "self" and r in env:
                        env[r] = None
            continue
        # loops, with, try, match: the statement we look for may be inside; everything stored inside is unknown afterwards
        _sym_kill(s, env)
        for blk in ("body", "orelse", "finalbody"):
            sub = getattr(s, blk, None)
            if isinstance(sub, list) and stop is not None and any(x is stop for y in sub for x in ast.walk(y)):
                _sym_block(sub, dict(env), stop)
    return env


def sym_text(e):
    """canonical text of a symbolic value (None -> '?')"""
    if e is None:
        return "?"
    return " ".join(ast.unparse(ast.fix_missing_locations(copy.deepcopy(e))).split())


def sym_value(fn, name, stop=None):
    """sym_text of local `name` of function `fn` just before statement `stop` (or at the end of the body)"""
    env = sym_eval(fn.body, stop=stop)
    return sym_text(env.get(name, ast.Name(name, ast.Load())))


def _cond_atoms(test, positive):
    """a condition as a list of literal texts: `a and b` holding -> [a, b]; `a or b` failing -> [not a, not b]; otherwise one literal"""
    if isinstance(test, ast.UnaryOp) and isinstance(test.op, ast.Not):
        return _cond_atoms(test.operand, not positive)
    if isinstance(test, ast.BoolOp) and ((isinstance(test.op, ast.And) and positive) or (isinstance(test.op, ast.Or) and not positive)):
        return [a for v in test.values for a in _cond_atoms(v, positive)]
    t = sym_text(test)
    return [t if positive else negation_text(t)]


def expr_cases(e, conds=()):
    """[(frozenset of condition literals, text)]: an expression with every conditional sub-expression lifted to the top, i.e.
    `f(a if c else b)` and `f(a) if c else f(b)` give the same two cases"""
    out = []

    def split(e, conds):
        for n in ast.walk(e):
            if isinstance(n, ast.IfExp):
                idx = [i for i, x in enumerate(ast.walk(e)) if x is n][0]
                for pos in (True, False):
                    e2 = copy.deepcopy(e)
                    tgt = list(ast.walk(e2))[idx]
                    rep = tgt.body if pos else tgt.orelse
                    if tgt is e2:
                        e2 = rep
                    else:
                        for par in ast.walk(e2):
                            for f, v in ast.iter_fields(par):
                                if v is tgt:
                                    setattr(par, f, rep)
                                elif isinstance(v, list) and any(x is tgt for x in v):
                                    setattr(par, f, [rep if x is tgt else x for x in v])
                    atoms = _cond_atoms(n.test, pos)
                    if any(negation_text(a_) in conds for a_ in atoms):
                        continue  # contradicts a condition already assumed
                    split(e2, list(conds) + [a_ for a_ in atoms if a_ not in conds])
                return
        out.append((frozenset(conds), sym_text(e)))

    split(e, list(conds))
    return out


def return_cases(fn, opaque=()):
    """The function as a decision table: [(frozenset of condition literals, text of the returned value)] over all paths, with locals
    resolved symbolically and conditional expressions inside a returned value (also in callee position) split into cases.  The table
    does not depend on whether the choice is spelled as nested ifs, early returns, a conditional expression or a local holding the
    chosen callee.  Raises UnrollError for returns inside loops / try."""
    out = []

    def split(e, conds):
        out.extend(expr_cases(e, conds))

    def block(stmts, env, conds):
        """returns list of (env, conds) for paths that fall off the end"""
        live = [(env, conds)]
        for s in stmts:
            nxt = []
            for env, conds in live:
                if isinstance(s, ast.Return):
                    split(_sym_subst(s.value, env) if s.value is not None else ast.Constant(None), conds)
                elif isinstance(s, ast.Raise):
                    pass
                elif isinstance(s, ast.If):
                    test = _sym_subst(s.test, env)
                    for arm, pos in ((s.body, True), (s.orelse, False)):
                        atoms = _cond_atoms(test, pos)
                        if any(negation_text(a_) in conds for a_ in atoms):
                            continue  # contradicts what this path has already decided (e.g. a second, complementary test instead of `else`)
                        nxt += block(arm, dict(env), conds + [a_ for a_ in atoms if a_ not in conds])
                elif isinstance(s, (ast.For, ast.While, ast.Try, ast.With)):
                    if any(isinstance(n, ast.Return) for n in ast.walk(s)):
                        raise UnrollError("return inside %s" % type(s).__name__)
                    e2 = dict(env)
                    _sym_kill(s, e2)
                    nxt.append((e2, conds))
                else:
                    e2 = dict(env)
                    r = _sym_block([s], e2, None)
                    if r is not None:
                        nxt.append((e2, conds))
            live = nxt
        return live

    for env, conds in block(fn.body, {"\0opaque": frozenset(opaque)} if opaque else {}, []):
        out.append((frozenset(conds), "None"))
    return sorted(out, key=lambda x: (sorted(x[0]), x[1]))


def _sorted_product(e):
    """text of an expression with the operands of every product sorted (a * b == b * a for the numeric values concerned)"""
    class P(ast.NodeTransformer):
        def visit_BinOp(self, n):
            self.generic_visit(n)
            if isinstance(n.op, ast.Mult):
                ops = []

                def flat(x):
                    if isinstance(x, ast.BinOp) and isinstance(x.op, ast.Mult):
                        flat(x.left)
                        flat(x.right)
                    else:
                        ops.append(x)

                flat(n)
                ops.sort(key=ast.unparse)
                out = ops[0]
                for x in ops[1:]:
                    out = ast.BinOp(out, ast.Mult(), x)
                return out
            return n

    return sym_text(P().visit(copy.deepcopy(e)))


def elementwise_stores(fn, target, arrays):
    """How the elements of the local array `target` are filled, one entry per store, as (lower index text, upper index text or None,
    element expression in terms of the index `i`), whether the store is a loop over an index (`for k in range(a, b): T[k] = E(k)`),
    a slice assignment (`T[a:] = E`, the arrays named in `arrays` are read element by element from 0: X -> X[i - a]) or a single
    element (`T[c] = E`).  Products are written with sorted operands."""
    out = []

    def rename(e, old, new):
        class R(ast.NodeTransformer):
            def visit_Name(self, n):
                return ast.Name(new, n.ctx) if n.id == old else n

        return R().visit(copy.deepcopy(e))

    for st in ast.walk(fn):
        if isinstance(st, ast.For) and isinstance(st.target, ast.Name) and isinstance(st.iter, ast.Call) and getattr(st.iter.func, "id", "") == "range":
            k = st.target.id
            a = st.iter.args
            lo, hi = ("0", ast.unparse(a[0])) if len(a) == 1 else (ast.unparse(a[0]), ast.unparse(a[1]))
            for s in st.body:
                if isinstance(s, ast.Assign) and len(s.targets) == 1 and isinstance(s.targets[0], ast.Subscript) and ast.unparse(s.targets[0].value) == target \
                        and isinstance(s.targets[0].slice, ast.Name) and s.targets[0].slice.id == k:
                    out.append((lo, hi, _sorted_product(rename(s.value, k, "i"))))
        elif isinstance(st, ast.Assign) and len(st.targets) == 1 and isinstance(st.targets[0], ast.Subscript) and ast.unparse(st.targets[0].value) == target:
            sl = st.targets[0].slice
            if isinstance(sl, ast.Slice) and sl.step is None:
                lo = ast.unparse(sl.lower) if sl.lower is not None else "0"
                hi = ast.unparse(sl.upper) if sl.upper is not None else None

                class A(ast.NodeTransformer):
                    def generic_visit(self, n):
                        if isinstance(n, ast.expr) and ast.unparse(n) in arrays:
                            idx = ast.Name("i", ast.Load()) if lo == "0" else ast.BinOp(ast.Name("i", ast.Load()), ast.Sub(), ast.parse(lo, mode="eval").body)
                            return ast.Subscript(n, idx, ast.Load())
                        return super().generic_visit(n)

                out.append((lo, hi, _sorted_product(A().visit(copy.deepcopy(st.value)))))
            elif not isinstance(sl, (ast.Slice, ast.Tuple)):
                enclosing_loop_vars = {f.target.id for f in ast.walk(fn) if isinstance(f, ast.For) and isinstance(f.target, ast.Name) and any(x is st for x in ast.walk(f))}
                if not (isinstance(sl, ast.Name) and sl.id in enclosing_loop_vars):
                    out.append((ast.unparse(sl), ast.unparse(sl), _sorted_product(st.value)))
    return sorted(out, key=lambda x: (x[0], str(x[1]), x[2]))


def monomials(e):
    """An arithmetic expression expanded into signed monomials: sorted [(sign, numerator factor texts, denominator factor texts)].
    Sums are flattened, products distributed over sums, a quotient by a single monomial inverted; anything else is one atomic factor.
    Two spellings of the same polynomial (`w * (a + b)` / `w * a + b * w`) give the same list; a dropped parenthesis does not."""
    def rec(x):
        if isinstance(x, ast.BinOp) and isinstance(x.op, (ast.Add, ast.Sub)):
            r = rec(x.right)
            if isinstance(x.op, ast.Sub):
                r = [(-s, n, d) for s, n, d in r]
            return rec(x.left) + r
        if isinstance(x, ast.UnaryOp) and isinstance(x.op, ast.USub):
            return [(-s, n, d) for s, n, d in rec(x.operand)]
        if isinstance(x, ast.UnaryOp) and isinstance(x.op, ast.UAdd):
            return rec(x.operand)
        if isinstance(x, ast.BinOp) and isinstance(x.op, ast.Mult):
            return [(s1 * s2, n1 + n2, d1 + d2) for s1, n1, d1 in rec(x.left) for s2, n2, d2 in rec(x.right)]
        if isinstance(x, ast.BinOp) and isinstance(x.op, ast.Div):
            den = rec(x.right)
            if len(den) == 1:
                s2, n2, d2 = den[0]
                return [(s1 * s2, n1 + d2, d1 + n2) for s1, n1, d1 in rec(x.left)]
            return [(s1, n1, d1 + [ast.unparse(x.right)]) for s1, n1, d1 in rec(x.left)]
        return [(1, [ast.unparse(x)], [])]

    return sorted((s, tuple(sorted(n)), tuple(sorted(d))) for s, n, d in rec(e))


def validated_uses(fn, var, is_check, is_use):
    """Typestate walk for "validate before use" of one local: `if <check on var>: raise` turns the state of `var` to validated on the path
    that goes on, any assignment to `var` turns it back, the arms of an `if` are joined (validated only if validated in every arm that
    continues; when only the arm under guard G validates and the other arm leaves `var` alone, the state is "validated if G", which a
    later `if G:` - with nothing G reads assigned in between - turns into validated), loop bodies start unvalidated unless validated
    before the loop and not reassigned inside.  Returns [(use node, validated?)] for every node accepted by `is_use`, wherever the check
    and the use sit relative to each other (same block, sibling blocks under the same guard, nested).
    is_check(test node) -> True when the test being TRUE means "var is invalid"."""
    uses = []

    def stored(st):
        return {n.id for n in ast.walk(st) if isinstance(n, ast.Name) and isinstance(n.ctx, (ast.Store, ast.Del))}

    def scan_uses(node, state):
        for n in ast.walk(node):
            if is_use(n):
                uses.append((n, state is True))

    def conj(t):
        return [ast.unparse(v) for v in t.values] if isinstance(t, ast.BoolOp) and isinstance(t.op, ast.And) else [ast.unparse(t)]

    def kill(state, names):
        if var in names:
            return False
        if isinstance(state, tuple) and names & state[2]:
            return False
        return state

    def block(stmts, state):
        for st in stmts:
            if isinstance(st, (ast.Return, ast.Raise, ast.Continue, ast.Break)):
                scan_uses(st, state)
                return None
            if isinstance(st, ast.If):
                scan_uses(st.test, state)
                if is_check(st.test) and st.body and isinstance(st.body[-1], ast.Raise) and not st.orelse:
                    block(st.body, state)
                    state = True
                    continue
                s_body = True if (isinstance(state, tuple) and state[1] in conj(st.test)) else state
                a = block(st.body, s_body)
                b = block(st.orelse, state)
                if a is None and b is None:
                    return None
                if a is None or b is None:
                    state = b if a is None else a
                elif a is True and b is True:
                    state = True
                elif a is True and b is not True and var not in {x for y in st.orelse for x in stored(y)} and not isinstance(st.test, ast.BoolOp):
                    g = ast.unparse(st.test)
                    reads = {n.id for n in ast.walk(st.test) if isinstance(n, ast.Name)}
                    # the guard must still mean the same after the arm: nothing it reads is assigned in the else arm; in the body only `var` may be
                    body_st = {x for y in st.body for x in stored(y)}
                    state = ("if", g, reads - {var}) if not ((body_st - {var}) & reads) else False
                else:
                    state = a if a == b else False
                continue
            if isinstance(st, (ast.For, ast.While)):
                inner = kill(state, {x for y in st.body + st.orelse for x in stored(y)} | stored(getattr(st, "target", ast.Pass())))
                block(st.body, inner)
                block(st.orelse, inner)
                state = inner
                continue
            if isinstance(st, (ast.With, ast.Try)):
                for blk in ("body", "orelse", "finalbody"):
                    r = block(getattr(st, blk, []) or [], state)
                    state = r if r is not None else state
                for h in getattr(st, "handlers", []):
                    block(h.body, False)
                continue
            if isinstance(st, (ast.FunctionDef, ast.ClassDef)):
                continue
            scan_uses(st, state)
            state = kill(state, stored(st))
        return state

    block(fn.body, False)
    return uses


FLOAT_FUNCS = {"np.sqrt", "np.exp", "np.log", "np.sin", "np.cos", "np.arccos", "np.arcsin", "np.power", "np.float64", "float", "np.double", "np.divide", "np.true_divide",
               "np.mean", "np.var", "np.std", "np.linspace", "np.log10", "np.tan", "np.arctan", "np.arctan2", "np.hypot", "np.sinh", "np.cosh", "np.tanh", "np.expm1", "np.log1p"}
PASS_FUNCS = {"np.abs", "np.absolute", "np.reshape", "np.atleast_1d", "np.atleast_2d", "np.squeeze", "np.ravel", "np.copy", "np.maximum", "np.minimum", "np.negative", "np.ascontiguousarray",
              "np.asarray", "np.array", "np.asanyarray"}


def floatness(e):
    """True when the expression certainly denotes floating-point data whatever the argument types (a conversion with dtype=np.double / float,
    a true division, an operation with a float literal, a transcendental function), False when it may carry the dtype of a caller's
    argument (integer input stays integer).  Locals must have been substituted beforehand (sym_eval)."""
    if isinstance(e, ast.Constant):
        return isinstance(e.value, float)
    if isinstance(e, ast.Call):
        fn = ast.unparse(e.func)
        dt = [k.value for k in e.keywords if k.arg == "dtype"]
        if dt:
            return ast.unparse(dt[0]) in ("np.double", "float", "np.float64", "np.float_", "'float64'", "'double'")
        if fn in FLOAT_FUNCS or fn.startswith("sps."):
            return True
        if fn in PASS_FUNCS and e.args:
            return floatness(e.args[0])
        if isinstance(e.func, ast.Attribute) and e.func.attr in ("reshape", "copy", "ravel", "flatten", "squeeze", "T") :
            return floatness(e.func.value)
        if isinstance(e.func, ast.Attribute) and e.func.attr == "astype" and e.args:
            return ast.unparse(e.args[0]) in ("np.double", "float", "np.float64")
        return False
    if isinstance(e, ast.BinOp):
        if isinstance(e.op, ast.Div):
            return True
        return floatness(e.left) or floatness(e.right)
    if isinstance(e, ast.UnaryOp):
        return floatness(e.operand)
    if isinstance(e, ast.Subscript):
        return floatness(e.value)
    if isinstance(e, ast.IfExp):
        return floatness(e.body) and floatness(e.orelse)
    if isinstance(e, ast.Attribute) and e.attr == "T":
        return floatness(e.value)
    return False


def call_paths(fn, is_event, opaque=()):
    """[(condition literals, [event texts in order], exit kind)] over all paths through the function's if-structure (loops / try bodies
    are walked once, straight through); an event is a call node accepted by `is_event`.  Locals used in conditions are followed
    symbolically (flags), contradictory paths are dropped."""
    out = []

    def events_in(st):
        return [ast.unparse(c) for c in ast.walk(st) if isinstance(c, ast.Call) and is_event(c)]

    def block(stmts, env, conds, evs):
        live = [(env, conds, evs)]
        for s in stmts:
            nxt = []
            for env, conds, evs in live:
                if isinstance(s, ast.Return):
                    out.append((frozenset(conds), evs + events_in(s), "return"))
                elif isinstance(s, ast.Raise):
                    out.append((frozenset(conds), evs + events_in(s), "raise"))
                elif isinstance(s, ast.If):
                    test = _sym_subst(s.test, env)
                    e2 = evs + [ast.unparse(c) for c in ast.walk(s.test) if isinstance(c, ast.Call) and is_event(c)]
                    for arm, pos in ((s.body, True), (s.orelse, False)):
                        atoms = _cond_atoms(test, pos)
                        if any(negation_text(a_) in conds for a_ in atoms):
                            continue
                        nxt += block(arm, dict(env), conds + [a_ for a_ in atoms if a_ not in conds], list(e2))
                elif isinstance(s, (ast.For, ast.While, ast.With, ast.Try)):
                    e_ = dict(env)
                    _sym_kill(s, e_)
                    nxt.append((e_, conds, evs + events_in(s)))
                else:
                    e_ = dict(env)
                    _sym_block([s], e_, None)
                    nxt.append((e_, conds, evs + events_in(s)))
            live = nxt
        return live

    for env, conds, evs in block(fn.body, {"\0opaque": frozenset(opaque)} if opaque else {}, [], []):
        out.append((frozenset(conds), evs, "fall"))
    return out


def merge_cases(table):
    """Decision table normal form: two rows with the same value whose condition sets differ in exactly one literal and its negation
    are one row without that literal ({A, C} -> v and {not A, C} -> v  ==  {C} -> v); repeated to a fixpoint.  Makes the table independent
    of the nesting order of the tests."""
    rows = [(frozenset(c), v) for c, v in table]
    changed = True
    while changed:
        changed = False
        for i in range(len(rows)):
            for j in range(i + 1, len(rows)):
                (c1, v1), (c2, v2) = rows[i], rows[j]
                if v1 != v2:
                    continue
                d1, d2 = c1 - c2, c2 - c1
                if len(d1) == 1 and len(d2) == 1 and negation_text(next(iter(d1))) == next(iter(d2)):
                    rows = [r for k, r in enumerate(rows) if k not in (i, j)] + [(c1 & c2, v1)]
                    changed = True
                    break
                if c1 == c2:
                    rows = [r for k, r in enumerate(rows) if k != j]
                    changed = True
                    break
            if changed:
                break
    return sorted(rows, key=lambda x: (sorted(x[0]), x[1]))
