"""Driver:  python3 -m sa.check C07 [--tier quick|thorough] [--repo /repo]"""
import argparse
import importlib
import os
import sys
import traceback

from . import core
from .loader import AnalysisError, Program


def run_rules(prop, prog, tier):
    mod = importlib.import_module("sa.rules.%s" % prop)
    ctx = core.Ctx(prop, prog, tier)
    try:
        explanation = mod.run(ctx)
    except AnalysisError as e:
        # a rule lost its anchor: the rules that already ran keep their verdicts (a violation found by them is still a violation,
        # exit 1); the rest of the property is undecided (exit 2 unless a violation is already established)
        ctx.undecided("ANCHOR", prop, "analysis stopped: %s" % e)
        explanation = "analysis of %s stopped early (%s); the obligations listed were decided before that" % (prop, e)
    return ctx, explanation


def main(argv=None):
    ap = argparse.ArgumentParser()
    ap.add_argument("prop")
    ap.add_argument("--tier", default=os.environ.get("VERIF_TIER", "quick"))
    ap.add_argument("--repo", default=core.REPO)
    ap.add_argument("--no-evidence", action="store_true")
    ap.add_argument("--jobs", type=int, default=int(os.environ.get("VERIF_JOBS", "16")))
    args = ap.parse_args(argv)
    if args.tier not in ("quick", "thorough"):
        args.tier = "quick"
    seed = int(os.environ.get("VERIF_SEED", "0") or 0)
    try:
        prog = Program(args.repo)
        ctx, explanation = run_rules(args.prop, prog, args.tier)
        st = None
        if args.tier == "thorough":
            from . import selftest

            st = selftest.run(args.prop, args.repo, ctx, jobs=args.jobs)
        rc = core.finish(ctx, explanation, selftest=st, seed=seed, write=not args.no_evidence)
    except AnalysisError as e:
        print("ANALYSIS-ERROR %s: %s" % (args.prop, e))
        rc = 2
    except Exception:
        traceback.print_exc()
        print("ANALYSIS-ERROR %s: internal exception (see traceback)" % args.prop)
        rc = 2
    sys.stdout.flush()
    return rc


if __name__ == "__main__":
    sys.exit(main())
