"""C12 Anisotropy and rotation as a linear change of coordinates: inverse-pair agreement, frames, bookkeeping, swapped arguments."""
import ast

from ..loader import AnalysisError, ClassInfo, norm_stmt
from ..small import FoldError, UnrollError, fold, pad_side, subst_fold, unroll_for

GEO = "tools/geometric.py"
BASE = "covmodel/base.py"
INV = {"matrix_isotropify": "matrix_anisotropify", "matrix_anisotropify": "matrix_isotropify", "matrix_derotate": "matrix_rotate", "matrix_rotate": "matrix_derotate"}


def product_factors(e):
    """Flatten np.matmul/np.dot/@ products into the ordered list of factors."""
    if isinstance(e, ast.Call) and ast.unparse(e.func) in ("np.matmul", "np.dot") and len(e.args) == 2:
        return product_factors(e.args[0]) + product_factors(e.args[1])
    if isinstance(e, ast.BinOp) and isinstance(e.op, ast.MatMult):
        return product_factors(e.left) + product_factors(e.right)
    return [e]


def single_return(fn):
    rets = [s for s in ast.walk(fn) if isinstance(s, ast.Return)]
    if len(rets) != 1:
        raise AnalysisError("expected a single return in %s" % fn.name)
    return rets[0].value


def inverse_pairs(ctx, rule="R12.1"):
    prog = ctx.prog
    # ---- matrix_isometrize / matrix_anisometrize
    iso = product_factors(single_return(prog.func(GEO, "matrix_isometrize")))
    ani = product_factors(single_return(prog.func(GEO, "matrix_anisometrize")))

    def nm(c):
        return c.func.id if isinstance(c, ast.Call) and isinstance(c.func, ast.Name) else ast.unparse(c)

    iso_n, ani_n = [nm(c) for c in iso], [nm(c) for c in ani]
    ok = len(iso_n) == 2 and all(n in INV for n in iso_n) and ani_n == [INV[n] for n in reversed(iso_n)]
    ctx.check(ok, rule, GEO + "::matrix_isometrize/matrix_anisometrize", "anisometrize is the product of the inverse factors in reversed order: %s vs %s" % (iso_n, ani_n), "reversed-inverse")
    ok = iso_n == ["matrix_isotropify", "matrix_derotate"]
    ctx.check(ok, rule, GEO + "::matrix_isometrize", "isometrize = de-stretch after rotating back (isotropify . derotate)", "iso-order")
    args_ok = True
    for c in iso + ani:
        if isinstance(c, ast.Call):
            a = [ast.unparse(x) for x in c.args]
            want = ["dim", "anis"] if "tropify" in nm(c) else ["dim", "angles"]
            args_ok = args_ok and a == want
    ctx.check(args_ok, rule, GEO + "::matrix_isometrize/matrix_anisometrize", "each factor receives (dim, anis) resp. (dim, angles)", "factor-args")
    # ---- isotropify / anisotropify
    def diag_tail(fn):
        r = single_return(fn)
        if isinstance(r, ast.Call) and ast.unparse(r.func) == "np.diag" and isinstance(r.args[0], ast.Call) and ast.unparse(r.args[0].func) == "np.concatenate":
            parts = r.args[0].args[0]
            if isinstance(parts, (ast.Tuple, ast.List)) and len(parts.elts) == 2:
                return ast.unparse(parts.elts[0]), parts.elts[1]
        return None, None

    h1, t1 = diag_tail(prog.func(GEO, "matrix_isotropify"))
    h2, t2 = diag_tail(prog.func(GEO, "matrix_anisotropify"))
    ok = h1 == h2 == "[1.0]" and t1 is not None and t2 is not None and ast.unparse(t2) == "anis"
    ok = ok and isinstance(t1, ast.BinOp) and isinstance(t1.op, ast.Div) and ast.unparse(t1.right) == "anis" and ast.unparse(t1.left) in ("1.0", "1")
    ctx.check(ok, rule, GEO + "::matrix_isotropify/matrix_anisotropify", "diag(1, 1/anis) and diag(1, anis): main axis unscaled, transversal axes divided / multiplied by the ratios", "diag")
    for f in ("matrix_isotropify", "matrix_anisotropify"):
        fn = prog.func(GEO, f)
        ok = any(norm_stmt(s) == "anis = set_anis(dim, anis)" for s in fn.body)
        ctx.check(ok, rule, GEO + "::" + f, "ratios are padded to dim-1 entries by set_anis first", "set-anis")
    # ---- rotate / derotate
    def rot_shape(fn):
        neg = any(isinstance(s, ast.Assign) and ast.unparse(s.targets[0]) == "angles" and isinstance(s.value, ast.UnaryOp) and isinstance(s.value.op, ast.USub) and "set_angles(dim, angles)" in ast.unparse(s.value) for s in fn.body)
        plain = any(norm_stmt(s) == "angles = set_angles(dim, angles)" for s in fn.body)
        loops = [s for s in fn.body if isinstance(s, ast.For)]
        side, sign, it = None, None, None
        if len(loops) == 1:
            it = ast.unparse(loops[0].iter)
            for s in loops[0].body:
                if isinstance(s, ast.Assign) and ast.unparse(s.targets[0]) == "result":
                    fs = product_factors(s.value)
                    if len(fs) == 2:
                        names = [ast.unparse(f.func) if isinstance(f, ast.Call) else ast.unparse(f) for f in fs]
                        if names == ["givens_rotation", "result"]:
                            side, g = "left", fs[0]
                        elif names == ["result", "givens_rotation"]:
                            side, g = "right", fs[1]
                        else:
                            g = None
                        if g is not None and len(g.args) == 3:
                            sign = ast.unparse(g.args[2])
        init = any(norm_stmt(s) == "result = np.eye(dim, dtype=np.double)" for s in fn.body)
        planes = any(norm_stmt(s) == "planes = rotation_planes(dim)" for s in fn.body)
        return dict(neg=neg, plain=plain, side=side, sign=sign, iter=it, init=init, planes=planes)

    r = rot_shape(prog.func(GEO, "matrix_rotate"))
    d = rot_shape(prog.func(GEO, "matrix_derotate"))
    same = r["iter"] == d["iter"] == "enumerate(zip(angles, planes))" and r["sign"] == d["sign"] == "(-1) ** i * angle" and r["init"] and d["init"] and r["planes"] and d["planes"]
    ctx.check(same, rule, GEO + "::matrix_rotate/matrix_derotate", "both compose Givens rotations over the same planes with the same alternating sign (-1)**i", "same-planes")
    inv_ok = {r["side"], d["side"]} == {"left", "right"} and (r["neg"] != d["neg"]) and (r["plain"] != d["plain"])
    ctx.check(inv_ok, rule, GEO + "::matrix_rotate/matrix_derotate",
              "derotate is the inverse product: opposite multiplication side and negated angles (rotate: %s, negated=%s; derotate: %s, negated=%s)" % (r["side"], r["neg"], d["side"], d["neg"]), "inverse-product")
    ctx.check(r["side"] == "left" and not r["neg"], rule, GEO + "::matrix_rotate", "rotate applies the given angles (not negated), later planes multiplied from the left", "rotate-convention")
    # ---- givens rotation is a proper plane rotation
    g = prog.func(GEO, "givens_rotation")
    st = {ast.unparse(s.targets[0]): s.value for s in g.body if isinstance(s, ast.Assign) and isinstance(s.targets[0], ast.Subscript)}
    dd = [ast.unparse(st.get(k)) for k in ("result[plane[0], plane[0]]", "result[plane[1], plane[1]]") if k in st]
    o1, o2 = st.get("result[plane[0], plane[1]]"), st.get("result[plane[1], plane[0]]")
    ok = dd == ["np.cos(angle)", "np.cos(angle)"] and o1 is not None and o2 is not None
    if ok:
        t1, t2 = ast.unparse(o1), ast.unparse(o2)
        ok = {t1, t2} == {"np.sin(angle)", "-np.sin(angle)"}
    ctx.check(ok, rule, GEO + "::givens_rotation", "plane block [[cos, -+sin], [+-sin, cos]] on an identity: orthogonal with determinant +1", "givens")
    if ok:
        ctx.check(ast.unparse(o1) == "-np.sin(angle)", rule, GEO + "::givens_rotation", "documented convention: counter-clockwise (entry [p0, p1] = -sin)", "ccw")
    # ---- planes / number of angles
    rp = single_return(prog.func(GEO, "rotation_planes"))
    ok = isinstance(rp, ast.ListComp) and ast.unparse(rp) == "[(i, j) for j in range(1, dim) for i in range(j)]"
    ctx.check(ok, rule, GEO + "::rotation_planes", "planes are all index pairs i < j < dim (count dim(dim-1)/2), ordered by the second axis", "planes")
    na = single_return(prog.func(GEO, "no_of_angles"))
    try:
        vals = [fold(na, {"dim": dm}) for dm in range(1, 6)]
    except FoldError:
        vals = None
    ctx.check(vals == [0, 1, 3, 6, 10], rule, GEO + "::no_of_angles", "number of angles = dim(dim-1)/2 for dim 1-5: %s" % vals, "no-of-angles")
    # ---- main axes
    ma = single_return(prog.func(GEO, "rotated_main_axes"))
    ctx.check(ast.unparse(ma) == "matrix_rotate(dim, angles).T", rule, GEO + "::rotated_main_axes", "main axes are the columns of the rotation matrix (rows of its transpose)", "main-axes")
    # ---- model level
    cm = prog.cls(BASE, "CovModel")
    isom, anis = cm.methods["isometrize"], cm.methods["anisometrize"]

    def branch(fn):
        ifs = [s for s in fn.body if isinstance(s, ast.If)]
        rets = [s for s in fn.body if isinstance(s, ast.Return)]
        resh = [s for s in fn.body if isinstance(s, ast.Assign) and ast.unparse(s.targets[0]) == "pos"]
        return ifs, rets, resh

    i_if, i_ret, i_resh = branch(isom)
    a_if, a_ret, a_resh = branch(anis)
    ok = len(i_if) == len(a_if) == 1 and ast.unparse(i_if[0].test) == ast.unparse(a_if[0].test) == "self.latlon"
    ctx.check(ok, rule, BASE + "::CovModel.isometrize/anisometrize", "both take the lat-lon branch under the same predicate", "same-predicate")
    fi = product_factors(i_ret[0].value) if i_ret else []
    fa = product_factors(a_ret[0].value) if a_ret else []
    ok = len(fi) == len(fa) == 2 and ast.unparse(fi[0]) == "matrix_isometrize(self.dim, self.angles, self.anis)" and ast.unparse(fa[0]) == "matrix_anisometrize(self.dim, self.angles, self.anis)" and ast.unparse(fi[1]) == ast.unparse(fa[1]) == "pos"
    ctx.check(ok, rule, BASE + "::CovModel.isometrize/anisometrize", "both multiply the position tuple from the left with the matrix built from the model's own (dim, angles, anis)", "same-args")
    ok = len(i_resh) == 1 and len(a_resh) == 1 and "reshape((self.field_dim, -1))" in ast.unparse(i_resh[0].value) and "reshape((self.dim, -1))" in ast.unparse(a_resh[0].value)
    ctx.check(ok, rule, BASE + "::CovModel.isometrize/anisometrize", "input is shaped (field_dim, n) going in and (dim, n) coming back", "reshape")
    gi = cm.methods["_get_iso_rad"]
    ok = "np.dot(matrix_isometrize(self.dim, self.angles, self.anis), pos)" in ast.unparse(gi) and "np.linalg.norm(iso, axis=0)" in ast.unparse(gi)
    ctx.check(ok, rule, BASE + "::CovModel._get_iso_rad", "the isotropic radius uses the same isometrize matrix", "iso-rad")
    mx = cm.methods["main_axes"]
    ctx.check(ast.unparse(single_return(mx)) == "rotated_main_axes(self.dim, self.angles)", rule, BASE + "::CovModel.main_axes", "main axes come from the model's dim and angles", "model-axes")


# ---------------------------------------------------------------------------------------- FRAME
ORIG, ISO = "ORIG", "ISO"


def prepos_isometrizes_once(pre):
    """pre_pos contains exactly one isometrize call, on the point list `pos`, and its result is what is returned as positions: either the call
    stands in the returned tuple, or it is assigned (under `self.model is not None`) to the name that the returned tuple starts with."""
    calls = [n for n in ast.walk(pre) if isinstance(n, ast.Call) and isinstance(n.func, ast.Attribute) and n.func.attr == "isometrize"]
    if len(calls) != 1 or ast.unparse(calls[0]) != "self.model.isometrize(pos)":
        return False
    c = calls[0]
    rets = [s for s in ast.walk(pre) if isinstance(s, ast.Return) and s.value is not None]

    def first_elt(v):
        while isinstance(v, ast.BinOp):
            v = v.left
        return v.elts[0] if isinstance(v, ast.Tuple) and v.elts else None

    firsts = [first_elt(r.value) for r in rets]
    if any(f is None for f in firsts):
        return False
    if any(any(x is c for x in ast.walk(f)) for f in firsts):
        # direct form: the other returns (no model) hand out the raw point list
        return all(any(x is c for x in ast.walk(f)) or ast.unparse(f) == "pos" for f in firsts)
    asg = [s for s in ast.walk(pre) if isinstance(s, ast.Assign) and s.value is c and len(s.targets) == 1 and isinstance(s.targets[0], ast.Name)]
    if len(asg) != 1:
        return False
    nm = asg[0].targets[0].id
    guarded = any(isinstance(i_, ast.If) and ast.unparse(i_.test) in ("self.model is not None",) and any(x is asg[0] for x in i_.body) for i_ in ast.walk(pre)) or \
        any(isinstance(i_, ast.If) and ast.unparse(i_.test) == "self.model is None" and any(x is asg[0] for x in i_.orelse) for i_ in ast.walk(pre))
    return guarded and all(isinstance(f, ast.Name) and f.id == nm for f in firsts) and all(r._ord > asg[0]._ord for r in rets)


def frames(ctx, rule="R12.2"):
    """Coordinate-frame typestate over the pipelines (sites enumerated from the tree)."""
    prog = ctx.prog
    n = 0

    def frame_of(e, env):
        t = ast.unparse(e)
        if t in env:
            return env[t]
        if t in ("self.pos", "self.cond_pos", "self._cond_pos", "fld.pos", "cond_pos"):
            return ORIG
        if t in ("self._krige_pos",):
            return ISO
        if isinstance(e, ast.Call):
            f = ast.unparse(e.func)
            if f.endswith(".isometrize") and e.args:
                return ISO if frame_of(e.args[0], env) == ORIG else "ERR:isometrize applied to %s" % frame_of(e.args[0], env)
            if f.endswith(".anisometrize") and e.args:
                return ORIG if frame_of(e.args[0], env) == ISO else "ERR:anisometrize applied to %s" % frame_of(e.args[0], env)
            if f == "generate_grid" and e.args:
                return frame_of(e.args[0], env)
        if isinstance(e, ast.Subscript):
            return frame_of(e.value, env)
        if isinstance(e, ast.Starred):
            return frame_of(e.value, env)
        return None

    def frames_of(e, env):
        """Set of frames the expression may carry (union over the branches that assigned its names)."""
        t = ast.unparse(e)
        if t in env:
            return set(env[t])
        if t in ("self.pos", "self.cond_pos", "self._cond_pos", "fld.pos", "cond_pos"):
            return {ORIG}
        if t in ("self._krige_pos",):
            return {ISO}
        if isinstance(e, ast.Call):
            f = ast.unparse(e.func)
            if f.endswith(".isometrize") and e.args:
                return {ISO if fr == ORIG else "ERR:isometrize applied to %s" % fr for fr in frames_of(e.args[0], env)} or {None}
            if f.endswith(".anisometrize") and e.args:
                return {ORIG if fr == ISO else "ERR:anisometrize applied to %s" % fr for fr in frames_of(e.args[0], env)} or {None}
            if f == "generate_grid" and e.args:
                return frames_of(e.args[0], env)
        if isinstance(e, (ast.Subscript, ast.Starred)):
            return frames_of(e.value, env)
        if isinstance(e, ast.IfExp):
            return frames_of(e.body, env) | frames_of(e.orelse, env)
        return {None}

    def analyse(rel, qual, init_env, sinks):
        nonlocal n
        fn = prog.func(rel, qual)
        site = "%s::%s" % (rel, qual)
        checked = []

        def visit_expr(e, env):
            for node in ast.walk(e):
                if isinstance(node, ast.Call):
                    f = ast.unparse(node.func)
                    for sink, (idxs, want) in sinks.items():
                        if f == sink or (sink.startswith("*") and f in fn_locals(fn, sink[1:])):
                            for ix in idxs:
                                arg = None
                                if isinstance(ix, int) and ix < len(node.args):
                                    arg = node.args[ix]
                                elif isinstance(ix, str):
                                    arg = {k.arg: k.value for k in node.keywords}.get(ix)
                                if arg is None:
                                    continue
                                checked.append((sink, arg, frozenset(frames_of(arg, env)), want))

        def walk(stmts, env):
            for st in stmts:
                if isinstance(st, ast.Assign):
                    visit_expr(st.value, env)
                    tg = st.targets[0]
                    if isinstance(tg, ast.Tuple) and isinstance(st.value, ast.Call) and ast.unparse(st.value.func) == "self.pre_pos":
                        env[ast.unparse(tg.elts[0])] = {ISO}
                    elif isinstance(tg, (ast.Name, ast.Attribute)):
                        fr = frames_of(st.value, env)
                        if fr != {None}:
                            env[ast.unparse(tg)] = fr
                            for x in fr:
                                if isinstance(x, str) and x.startswith("ERR:"):
                                    ctx.violation(rule, site, "%s in `%s`" % (x[4:], norm_stmt(st)[:80]), "err:" + norm_stmt(st))
                        elif ast.unparse(tg) in env:
                            env[ast.unparse(tg)] = {None}
                elif isinstance(st, ast.If):
                    visit_expr(st.test, env)
                    e1, e2 = {k: set(v) for k, v in env.items()}, {k: set(v) for k, v in env.items()}
                    walk(st.body, e1)
                    walk(st.orelse, e2)
                    for k in set(e1) | set(e2):
                        env[k] = e1.get(k, {None}) | e2.get(k, {None})
                elif isinstance(st, (ast.For, ast.While)):
                    if isinstance(st, ast.For):
                        visit_expr(st.iter, env)
                    walk(st.body, env)
                elif isinstance(st, (ast.With, ast.Try)):
                    walk(st.body, env)
                elif isinstance(st, (ast.Expr, ast.Return, ast.AugAssign)):
                    if getattr(st, "value", None) is not None:
                        visit_expr(st.value, env)

        walk(fn.body, {k: {v} for k, v in init_env.items()})
        for sink, arg, frs, want in checked:
            n += 1
            known = {f for f in frs if f is not None}
            ctx.check(known == {want}, rule, site, "%s receives %s coordinates on every path that defines them: argument `%s` may be %s" % (sink, want, ast.unparse(arg)[:50], sorted(map(str, frs))), "%s:%s:%s" % (sink, ast.unparse(arg), sorted(map(str, known))))

    def fn_locals(fn, kind):
        # names bound by `for i, f in enumerate(self.drift_functions)`
        out = set()
        for s in ast.walk(fn):
            if isinstance(s, ast.For) and "drift_functions" in ast.unparse(s.iter) and isinstance(s.target, ast.Tuple):
                out.add(ast.unparse(s.target.elts[1]))
        return out

    KB = "krige/base.py"
    analyse("field/base.py", "Field.pre_pos", {}, {})
    pre = prog.func("field/base.py", "Field.pre_pos")
    n += 1
    ctx.check(prepos_isometrizes_once(pre), rule, "field/base.py::Field.pre_pos",
              "positions are isometrized exactly once, at the end of pre_pos (raw positions only when there is no model)", "prepos-once")
    analyse("field/srf.py", "SRF.__call__", {}, {"self.generator": ([0], ISO)})
    analyse("field/cond_srf.py", "CondSRF.__call__", {}, {"self.generator": ([0], ISO)})
    analyse(KB, "Krige.__call__", {}, {"self._get_krige_vecs": ([0], ISO)})
    analyse(KB, "Krige._get_krige_vecs", {"pos": ISO}, {"self._get_dists": ([0, 1], ISO), "*drift": ([0], ORIG)})
    analyse(KB, "Krige._get_krige_mat", {}, {"self._get_dists": ([0], ISO), "*drift": ([0], ORIG)})
    analyse(KB, "Krige.set_condition", {}, {"vario_estimate": ([0], ORIG)})
    sc = prog.func(KB, "Krige.set_condition")
    kp = [s for s in ast.walk(sc) if isinstance(s, ast.Assign) and ast.unparse(s.targets[0]) == "self._krige_pos"]
    n += 1
    ctx.check(len(kp) == 1 and ast.unparse(kp[0].value) == "self.model.isometrize(self.cond_pos)", rule, KB + "::Krige.set_condition", "_krige_pos = isometrize(cond_pos), computed once per condition change", "krige-pos")
    for q in ("Krige.cond_mean@get", "Krige.cond_trend@get"):
        analyse(KB, q, {}, {"eval_func": ([1], ORIG)})
    analyse("field/base.py", "Field.post_field", {}, {"apply_mean_norm_trend": (["pos"], ORIG)})
    analyse("transform/field.py", "_pre_process", {}, {"remove_trend_norm_mean": (["pos"], ORIG)})
    analyse("transform/field.py", "_post_process", {}, {"apply_mean_norm_trend": (["pos"], ORIG)})
    # no other isometrize call sites in the pipelines
    sites = []
    for m, q, f, ci, kind in prog.all_functions():
        if kind == "nested" or m.relpath.endswith("plot.py"):
            continue
        for node in ast.walk(f):
            if isinstance(node, ast.Call) and isinstance(node.func, ast.Attribute) and node.func.attr in ("isometrize", "anisometrize"):
                sites.append("%s::%s:%s" % (m.relpath, q, node.func.attr))
    want = sorted(["field/base.py::Field.pre_pos:isometrize", "krige/base.py::Krige.set_condition:isometrize", "krige/base.py::Krige._get_krige_vecs:anisometrize"])
    n += 1
    ctx.check(sorted(sites) == want, rule, "src/gstools", "the only frame transformations in the pipelines are %s (found %s)" % (want, sorted(sites)), "transform-sites")
    ctx.floor(rule, "frame obligations", n, 15)


def bookkeeping(ctx, rule="R12.3"):
    prog = ctx.prog
    T = "covmodel/tools.py"
    sl = prog.func(T, "set_len_anis")
    asg = [norm_stmt(s) for s in ast.walk(sl) if isinstance(s, ast.Assign)]
    ok = "out_len_scale = ls_tmp[0]" in asg
    loops = [s for s in ast.walk(sl) if isinstance(s, ast.For) and any(isinstance(x, ast.Assign) and isinstance(x.targets[0], ast.Subscript) and ast.unparse(x.targets[0].value) == "out_anis" for x in s.body)]
    ok = ok and len(loops) == 1 and all(isinstance(x, ast.Assign) for x in loops[0].body)
    if ok:
        # static unrolling for dim = 2..4 (ls_tmp has been padded to length dim): the writes must be out_anis[k] = ls_tmp[k + 1] / ls_tmp[0]
        for dim in (2, 3, 4):
            try:
                its = unroll_for(loops[0], {"ls_tmp": dim, "out_anis": dim - 1}, {"dim": dim})
            except UnrollError:
                ok = False
                break
            writes = sorted(norm_stmt(subst_fold(x, b, {"ls_tmp": dim})) for b in its for x in loops[0].body if isinstance(x.targets[0], ast.Subscript))
            ok = ok and writes == sorted("out_anis[%d] = ls_tmp[%d] / ls_tmp[0]" % (k, k + 1) for k in range(dim - 1))
    ctx.check(ok, rule, T + "::set_len_anis", "a list of length scales redefines anis[i-1] = len[i]/len[0] for i = 1..dim-1 and len_scale = len[0]", "ratios")
    lpads = [n for n in ast.walk(sl) if isinstance(n, ast.Call) and ast.unparse(n.func) == "np.pad"]
    ctx.check(len(lpads) == 1 and pad_side(lpads[0]) == ("behind", "edge", "dim - len(ls_tmp)"), rule, T + "::set_len_anis",
              "too few length scales are filled up behind with the last one (len_scale[i] stays on axis i)", "len-fill-behind")
    ok = "out_anis = set_anis(dim, anis)" in asg
    ctx.check(ok, rule, T + "::set_len_anis", "a scalar length scale keeps the given ratios (padded by set_anis)", "keep-anis")
    # "one value" is decided on what is left after truncation to dim values, not on how the value was spelled ([4.0] is one value)
    keep = [s for s in ast.walk(sl) if isinstance(s, ast.If) and any(norm_stmt(x) == "out_anis = set_anis(dim, anis)" for x in s.body)]
    ctx.check(len(keep) == 1 and ast.unparse(keep[0].test) in ("len(ls_tmp) == 1", "ls_tmp.size == 1", "np.size(ls_tmp) == 1"), rule, T + "::set_len_anis",
              "the ratios are kept iff exactly one length-scale value remains (test: %s)" % (ast.unparse(keep[0].test) if keep else "none"), "keep-anis-when")
    chk = [s for s in ast.walk(sl) if isinstance(s, ast.If) and ast.unparse(s.test) == "not ani > 0.0" and any(isinstance(x, ast.Raise) for x in s.body)]
    ctx.check(len(chk) == 1, rule, T + "::set_len_anis", "ratios must be > 0 (ValueError otherwise)", "positive")
    sa = prog.func(GEO, "set_anis")
    pads = [n for n in ast.walk(sa) if isinstance(n, ast.Call) and ast.unparse(n.func) == "np.pad"]
    ok = len(pads) == 1 and pad_side(pads[0]) == ("front", "constant", "dim - len(out_anis) - 1") and {k.arg: ast.unparse(k.value) for k in pads[0].keywords}.get("constant_values") == "1.0"
    ctx.check(ok, rule, GEO + "::set_anis", "too few ratios are padded IN FRONT with 1 up to dim-1 entries", "pad-front")
    ctx.check(any("[:dim - 1]" in norm_stmt(s) for s in sa.body), rule, GEO + "::set_anis", "at most dim-1 ratios are kept", "truncate")
    sg = prog.func(GEO, "set_angles")
    pads = [n for n in ast.walk(sg) if isinstance(n, ast.Call) and ast.unparse(n.func) == "np.pad"]
    ok = len(pads) == 1 and pad_side(pads[0]) == ("behind", "constant", "no_of_angles(dim) - len(out_angles)") and {k.arg: ast.unparse(k.value) for k in pads[0].keywords}.get("constant_values") == "0.0"
    ctx.check(ok, rule, GEO + "::set_angles", "too few angles are padded BEHIND with 0 up to dim(dim-1)/2 entries", "pad-behind")


def swap_lint(ctx, rule="R12.4"):
    """Swapped-arguments lint: a positional argument whose terminal identifier is the name of a *different*
    parameter of the resolved callee while that parameter's own position holds another name."""
    prog = ctx.prog
    from .. import alias

    an = alias.Analyzer(prog)
    resolved = 0
    hits = 0
    for fq, (m, f, ci, kind) in an.funcs.items():
        if m.relpath.endswith("plot.py"):
            continue
        fa = alias.FnAnalysis(an, fq)
        for node in ast.walk(f):
            if not isinstance(node, ast.Call) or len(node.args) < 2:
                continue
            targets = an.resolve_call(fa, node)
            if len(targets) != 1:
                continue
            tfq, how = targets[0]
            tfn = an.funcs[tfq][1]
            names = [a.arg for a in tfn.args.posonlyargs + tfn.args.args]
            if how in ("method", "ctor") or (an.funcs[tfq][2] is not None and names and names[0] in ("self", "cls")):
                names = names[1:]
            resolved += 1

            def term(a):
                if isinstance(a, ast.Name):
                    return a.id
                if isinstance(a, ast.Attribute):
                    return a.attr.lstrip("_")
                return None

            terms_ = [term(a) for a in node.args]
            for i, t in enumerate(terms_):
                if t is None or i >= len(names) or t == names[i]:
                    continue
                if t in names:
                    j = names.index(t)
                    if j < len(terms_) and terms_[j] is not None and terms_[j] != names[j] and terms_[j] == names[i]:
                        hits += 1
                        ctx.violation(rule, "%s::%s" % (m.relpath, fq.split("::")[1]), "arguments `%s` and `%s` of the call to %s appear swapped w.r.t. its parameters %s" % (t, terms_[j], tfq.split("::")[1], names), "swap:%s" % ast.unparse(node)[:80])
    ctx.ok(rule, "src/gstools", "%d call sites with a uniquely resolved in-tree callee inspected, %d swapped pairs" % (resolved, hits))
    ctx.floor(rule, "resolved call sites with >= 2 positional arguments", resolved, 150)
    # the rule is known to fire: tiny positive example
    import textwrap

    demo = ast.parse(textwrap.dedent("""
        def callee(dim, angles, anis):
            return dim
        def caller(dim, angles, anis):
            return callee(dim, anis, angles)
    """))
    c = [n for n in ast.walk(demo) if isinstance(n, ast.Call)][0]
    names = ["dim", "angles", "anis"]
    t = [a.id for a in c.args]
    fired = any(t[i] != names[i] and t[i] in names and t[names.index(t[i])] == names[i] for i in range(3))
    ctx.check(fired, rule, "selfcheck", "the swap rule fires on its built-in positive example", "positive-example")


def run(ctx):
    from .C14 import no_shared_parameter_arrays

    no_shared_parameter_arrays(ctx, rule="R12.6")  # angles / anis stored in the model must not share memory with the caller's array (shared with C14)
    inverse_pairs(ctx)
    frames(ctx)
    bookkeeping(ctx)
    swap_lint(ctx)
    from .C05 import krige_state

    krige_state(ctx, rule="R12.5", raise_exits=False)  # C12 is about the frame the matrix is built in, not about rejected refreshes

    return (
        "Decides the structural clauses of C12: (R12.1) isometrize/anisometrize and the matrix builders are inverse pairs by construction (reversed order of paired inverse factors, "
        "diag(1, 1/anis) vs diag(1, anis), Givens products on opposite sides with negated angles over the same planes and alternating signs, proper plane rotations); (R12.2) coordinate-frame "
        "typestate: every generator / distance / drift / trend sink in the SRF, Krige and CondSRF pipelines receives coordinates in the frame it expects and positions are isometrized exactly once; "
        "(R12.3) length-scale/ratio/angle padding conventions; (R12.4) swapped-argument lint over all resolved call sites. NOT decided: numerical orthogonality, equality of pipelines as values."
    )
