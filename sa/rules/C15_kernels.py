"""Further loop-shape rules for the Cython kernels (source level):

R15.6 accumulator reset     a C scalar accumulated with `+=` in an inner loop and read after that loop is assigned afresh, in the same
                            block and before the inner loop, on every pass (a hoisted or skipped reset lets sums leak into the next one)
R15.7 full extent           a loop `for v in (p)range(N)` whose variable indexes an array axis directly runs over the WHOLE axis
                            (N equals that axis' extent under the wrapper contract): dropped last rows / columns / points
R15.8 zero-initialised sums arrays that are accumulated into (`a[i] += e`) are allocated with np.zeros, not np.empty
R15.9 integer division      with cdivision=True, `/` between two integer-typed operands is C integer division
R15.10 shared work          inside a `with parallel()` block every store to a shared array lies inside a prange loop
"""
import ast

from .. import prange as PR
from ..loader import AnalysisError, norm_stmt
from .C15_bounds import CONTRACT

KERNEL_FILES = ("field/summator.pyx", "krige/krigesum.pyx", "variogram/estimator.pyx")
INT_TYPES = ("int", "long", "Py_ssize_t", "np.int64_t", "size_t", "unsigned int", "np.int32_t", "long long")


def _loops_containing(fn, node):
    out = []

    def rec(cur, stack):
        if cur is node:
            out.extend(stack)
            return True
        for c in ast.iter_child_nodes(cur):
            if rec(c, stack + ([cur] if isinstance(cur, ast.For) else [])):
                return True
        return False

    rec(fn, [])
    return out  # outermost first


def _block_of(fn, stmt):
    for n in ast.walk(fn):
        for f in ("body", "orelse", "finalbody"):
            b = getattr(n, f, None)
            if isinstance(b, list) and any(x is stmt for x in b):
                return n, b
    return None, None


def _top_stmt_in_block(block, node):
    for s in block:
        if s is node or any(x is node for x in ast.walk(s)):
            return s
    return None


def accumulator_reset(ctx, rule="R15.6"):
    n = 0
    for rel in KERNEL_FILES:
        mod = ctx.prog.mod(rel)
        for name, fn in sorted(mod.functions.items()):
            info = mod.pyx.functions.get(name)
            if info is None:
                continue
            scal = {k for k, t in info["locals"].items() if t and "[" not in t}
            site = "%s::%s" % (rel, name)
            accs = {}
            for a in ast.walk(fn):
                if isinstance(a, ast.AugAssign) and isinstance(a.target, ast.Name) and a.target.id in scal and isinstance(a.op, (ast.Add, ast.Sub, ast.Mult)):
                    accs.setdefault(a.target.id, []).append(a)
            for s, augs in sorted(accs.items()):
                for aug in augs:
                    loops = _loops_containing(fn, aug)
                    if not loops:
                        continue
                    inner = loops[-1]
                    # E: the block (body of the next enclosing loop, or the function body) that contains the inner loop
                    owner, block = _block_of(fn, inner)
                    if block is None:
                        continue
                    # is s read in that block after the inner loop (or returned)?  then each pass through the block must reset it first
                    idx = [i for i, x in enumerate(block) if x is inner][0]
                    read_after = any(isinstance(x, ast.Name) and x.id == s and isinstance(x.ctx, ast.Load) for st in block[idx + 1:] for x in ast.walk(st))
                    if not read_after:
                        continue
                    n += 1
                    # the reset may sit in this block or in an enclosing if/with block - but not outside the next enclosing LOOP body
                    ok = False
                    cur_owner, cur_block, anchor = owner, block, inner
                    while cur_block is not None:
                        k_ = [i for i, x in enumerate(cur_block) if x is anchor or any(y is anchor for y in ast.walk(x))][0]
                        resets = [i for i, st in enumerate(cur_block[:k_]) if isinstance(st, ast.Assign) and len(st.targets) == 1 and isinstance(st.targets[0], ast.Name) and st.targets[0].id == s]
                        # nothing before the reset may jump over it (`continue`); a reset placed AFTER the use does not count
                        if resets and not any(isinstance(x, (ast.Continue, ast.Break)) for st in cur_block[:resets[-1]] for x in ast.walk(st)):
                            ok = True
                            break
                        if isinstance(cur_owner, (ast.For, ast.While, ast.FunctionDef)):
                            break
                        anchor = cur_owner
                        cur_owner, cur_block = _block_of(fn, cur_owner)
                    ctx.check(ok, rule, site, "accumulator `%s` (summed in `for %s`) is re-initialised in the same block before that loop on every pass: %s"
                              % (s, ast.unparse(inner.target), "yes" if ok else "no plain assignment before the loop in its block"), "reset:%s:%s" % (s, ast.unparse(inner.target)))
    ctx.floor(rule, "scalar accumulators read after their loop", n, 6)


def _extent_classes(rel, name, fn, _nested=False):
    """union-find over extent expressions (`a.shape[k]`, locals assigned from them, allocation sizes) using the wrapper contract"""
    parent = {}

    def find(x):
        parent.setdefault(x, x)
        while parent[x] != x:
            parent[x] = parent[parent[x]]
            x = parent[x]
        return x

    def union(a, b):
        parent[find(a)] = find(b)

    for a, b in CONTRACT.get(rel, {}).get(name, {}).get("eq", []):
        union(a, b)
    for st in ast.walk(fn):
        if isinstance(st, ast.Assign) and len(st.targets) == 1 and isinstance(st.targets[0], ast.Name):
            v = st.value
            nm = st.targets[0].id
            stores = sum(1 for x in ast.walk(fn) if isinstance(x, ast.Name) and x.id == nm and isinstance(x.ctx, ast.Store))
            if stores != 1:
                continue
            t = ast.unparse(v)
            if isinstance(v, (ast.Subscript, ast.Name)):
                union(nm, t)
            # allocations: x = np.zeros(N) / np.zeros((A, B)) / np.empty(...)
            if isinstance(v, ast.Call) and ast.unparse(v.func) in ("np.zeros", "np.empty", "np.ones") and v.args:
                shp = v.args[0]
                dims = shp.elts if isinstance(shp, (ast.Tuple, ast.List)) else [shp]
                for k, d in enumerate(dims):
                    union("%s.shape[%d]" % (nm, k), ast.unparse(d))
    # helper kernels receive an extent as a plain parameter (`dim`): bind it through the call sites in this module
    mod_fns = {} if _nested else (fn._module_functions if hasattr(fn, "_module_functions") else {})
    for caller in mod_fns.values():
        aliases = {name: {name}}
        for st in ast.walk(caller):
            if isinstance(st, ast.Assign) and len(st.targets) == 1 and isinstance(st.targets[0], ast.Name) and isinstance(st.value, ast.Name) and st.value.id == name:
                aliases[name].add(st.targets[0].id)
            if isinstance(st, ast.Assign) and len(st.targets) == 1 and isinstance(st.targets[0], ast.Name) and isinstance(st.value, ast.Call) and ast.unparse(st.value.func).startswith("choose_"):
                aliases[name].add(st.targets[0].id)  # function pointer chosen at run time: may be this helper
        cfind = None
        for call in ast.walk(caller):
            if isinstance(call, ast.Call) and isinstance(call.func, ast.Name) and call.func.id in aliases[name] and caller is not fn:
                params = [a.arg for a in fn.args.args]
                if len(call.args) != len(params):
                    continue
                if cfind is None:
                    cfind = _extent_classes(rel, caller.name, caller, _nested=True)
                amap = {}
                for p_, a_ in zip(params, call.args):
                    if isinstance(a_, ast.Name):
                        amap[a_.id] = p_
                for p_, a_ in zip(params, call.args):
                    if not isinstance(a_, ast.Name):
                        continue
                    for arr, par in amap.items():
                        for k in range(3):
                            if cfind(a_.id) == cfind("%s.shape[%d]" % (arr, k)):
                                union(p_, "%s.shape[%d]" % (par, k))
        if cfind is not None:
            # contract equalities of the caller between arrays that are passed on
            for a, b in CONTRACT.get(rel, {}).get(caller.name, {}).get("eq", []):
                pass
    # run-time checks of the kernel itself: `if a.shape[i] != b.shape[j]: raise`
    for st in ast.walk(fn):
        if isinstance(st, ast.If) and any(isinstance(x, ast.Raise) for x in st.body) and isinstance(st.test, ast.Compare) and len(st.test.ops) == 1 and isinstance(st.test.ops[0], ast.NotEq):
            union(ast.unparse(st.test.left), ast.unparse(st.test.comparators[0]))
    return find


# loops that deliberately run over a part of an axis, with the reason (read off the kernels)
PARTIAL_OK = {
    ("variogram/estimator.pyx", "structured", "i"): "lag loop: rows 0..n-2 are the first point of a pair (i_max = n - 1)",
    ("variogram/estimator.pyx", "ma_structured", "i"): "lag loop: rows 0..n-2 are the first point of a pair (i_max = n - 1)",
    ("variogram/estimator.pyx", "unstructured", "i"): "bins: bin_edges has one more entry than there are bins (i_max = len - 1)",
    ("variogram/estimator.pyx", "directional", "i"): "bins: bin_edges has one more entry than there are bins (i_max = len - 1)",
    ("variogram/estimator.pyx", "unstructured", "j"): "pairs: first point j < k_max - 1",
    ("variogram/estimator.pyx", "directional", "j"): "pairs: first point j < k_max - 1",
}


def full_extent(ctx, rule="R15.7"):
    n = 0
    for rel in KERNEL_FILES:
        mod = ctx.prog.mod(rel)
        for name, fn in sorted(mod.functions.items()):
            info = mod.pyx.functions.get(name)
            if info is None:
                continue
            site = "%s::%s" % (rel, name)
            fn._module_functions = mod.functions
            find = _extent_classes(rel, name, fn)
            for lp in [x for x in ast.walk(fn) if isinstance(x, ast.For)]:
                it = lp.iter
                if not (isinstance(it, ast.Call) and getattr(it.func, "id", "") in ("range", "prange") and isinstance(lp.target, ast.Name)):
                    continue
                pos_args = [a for a in it.args]
                if len(pos_args) == 1:
                    lo, hi = "0", ast.unparse(pos_args[0])
                elif len(pos_args) == 2:
                    lo, hi = ast.unparse(pos_args[0]), ast.unparse(pos_args[1])
                else:
                    # range(a, b, step): a strided loop visits every step-th index only; the remainder needs its own loop, none of the kernels has one
                    n += 1
                    ctx.violation(rule, site, "`for %s in %s`: strided loop over an array index (elements between the strides / a remainder are not visited)" % (lp.target.id, ast.unparse(it)),
                                  "stride:%s" % lp.target.id)
                    continue
                if lo != "0":
                    continue  # triangular / offset loops are index-checked by R15.4 and pair-checked by R08.2
                v = lp.target.id
                axes = set()
                for sub in ast.walk(lp):
                    if isinstance(sub, ast.Subscript):
                        base = PR.base_name(sub)
                        if base is None:
                            continue
                        for k, e in enumerate(PR.index_elts(sub)):
                            if isinstance(e, ast.Name) and e.id == v:
                                axes.add("%s.shape[%d]" % (base, k))
                if not axes:
                    continue
                n += 1
                key = (rel, name, v)
                covered = [a for a in sorted(axes) if find(a) == find(hi)]
                if covered:
                    ctx.ok(rule, site, "`for %s in range(%s)` runs over the whole extent of %s" % (v, hi, covered[0]))
                elif key in PARTIAL_OK:
                    ctx.ok(rule, site, "`for %s in range(%s)`: partial by design - %s" % (v, hi, PARTIAL_OK[key]))
                else:
                    ctx.violation(rule, site, "`for %s in range(%s)` indexes %s but its bound is not the extent of that axis: the end of the axis is never visited" % (v, hi, sorted(axes)),
                                  "partial:%s:%s" % (v, hi))
    ctx.floor(rule, "zero-based loops indexing an array axis", n, 20)


def zero_init(ctx, rule="R15.8"):
    """Every array a kernel accumulates into (`+=` on a declared memoryview local) is allocated in this very call by its own np.zeros:
    not np.empty, not a buffer kept at module level between calls (history dependence, results handed out earlier are overwritten), not one
    allocation shared by two outputs (`a = b = np.zeros(n)`)."""
    n = 0
    for rel in KERNEL_FILES:
        mod = ctx.prog.mod(rel)
        for name, fn in sorted(mod.functions.items()):
            site = "%s::%s" % (rel, name)
            info = mod.pyx.functions.get(name) or {}
            mv_locals = {k for k, t in info.get("locals", {}).items() if t and "[" in t}
            alloc = {}
            for st in ast.walk(fn):
                if isinstance(st, ast.Assign) and all(isinstance(t, ast.Name) for t in st.targets) and isinstance(st.value, ast.Call) and ast.unparse(st.value.func) in ("np.zeros", "np.empty", "np.ones", "np.full"):
                    if len(st.targets) > 1:
                        n += 1
                        ctx.violation(rule, site, "one allocation is bound to several arrays (%s): they share their memory" % ", ".join(t.id for t in st.targets), "shared-alloc:" + ",".join(sorted(t.id for t in st.targets)))
                    for t in st.targets:
                        alloc[t.id] = ast.unparse(st.value.func)
            mv_params = {p_["name"] for p_ in info.get("params", []) if p_.get("type") and "[" in p_["type"]}
            for st in ast.walk(fn):
                if isinstance(st, ast.Assign) and len(st.targets) == 1 and isinstance(st.targets[0], ast.Name) and st.targets[0].id in mv_locals and isinstance(st.value, ast.Name) \
                        and st.value.id in (mv_locals | mv_params):
                    n += 1
                    ctx.violation(rule, site, "array `%s` is bound to the memory of `%s` (a memoryview assignment does not copy): writes to one change the other" % (st.targets[0].id, st.value.id),
                                  "alias:%s:%s" % (st.targets[0].id, st.value.id))
            summed = sorted({PR.base_name(a.target) for a in ast.walk(fn) if isinstance(a, ast.AugAssign) and isinstance(a.op, (ast.Add, ast.Sub)) and isinstance(a.target, ast.Subscript)
                             and PR.base_name(a.target) in mv_locals})
            for a in summed:
                n += 1
                if a not in alloc:
                    defs = [ast.unparse(st.value)[:50] for st in ast.walk(fn) if isinstance(st, ast.Assign) and any(isinstance(t, ast.Name) and t.id == a for t in st.targets)]
                    ctx.violation(rule, site, "`%s` is accumulated into but not allocated in this call (it is %s): the sums start from whatever an earlier call left there" % (a, defs or "never assigned"), "alloc:%s:foreign" % a)
                else:
                    ctx.check(alloc[a] == "np.zeros", rule, site, "`%s` is accumulated into and allocated with %s" % (a, alloc[a]), "alloc:%s:%s" % (a, alloc[a]))
    ctx.floor(rule, "locally allocated accumulation arrays", n, 8)


def strided_views(ctx, rule="R15.17"):
    """Array parameters are declared as strided memoryviews (`double[:, :]`): a contiguity requirement (`::1`) that the Python side does not
    establish (scipy's inverse, sliced positions) turns valid calls into a ValueError in one kernel and not in its sibling."""
    n = 0
    for rel in KERNEL_FILES:
        mod = ctx.prog.mod(rel)
        for name, info in sorted(mod.pyx.functions.items()):
            for p_ in info.get("params", []):
                if p_.get("type") and "[" in p_["type"]:
                    n += 1
                    ctx.check("::" not in p_["type"], rule, "%s::%s" % (rel, name), "parameter %s is declared `%s`" % (p_["name"], p_["type"]), "contiguity:%s" % p_["name"])
    ctx.floor(rule, "array parameters of the kernels", n, 30)


def _is_int(e, types):
    if isinstance(e, ast.Constant):
        return isinstance(e.value, int) and not isinstance(e.value, bool)
    if isinstance(e, ast.Name):
        t = types.get(e.id)
        return bool(t) and t.strip() in INT_TYPES
    if isinstance(e, ast.Subscript):
        b = PR.base_name(e)
        t = types.get(b) if b else None
        return bool(t) and "[" in t and t.split("[")[0].replace("const", "").strip() in INT_TYPES
    if isinstance(e, ast.BinOp) and isinstance(e.op, (ast.Add, ast.Sub, ast.Mult, ast.Pow, ast.FloorDiv, ast.Mod)):
        return _is_int(e.left, types) and _is_int(e.right, types)
    if isinstance(e, ast.UnaryOp):
        return _is_int(e.operand, types)
    if isinstance(e, ast.Call) and getattr(e.func, "id", "") in ("max", "min", "abs") and e.args:
        return all(_is_int(a, types) for a in e.args)
    return False


def int_division(ctx, rule="R15.9"):
    n = 0
    for rel in KERNEL_FILES:
        mod = ctx.prog.mod(rel)
        cdiv = str(mod.pyx.directives.get("cdivision", "")).lower() == "true"
        for name, fn in sorted(mod.functions.items()):
            info = mod.pyx.functions.get(name)
            if info is None:
                continue
            types = dict(info["locals"])
            for p in info["params"]:
                types[p["name"]] = p["type"]
            site = "%s::%s" % (rel, name)
            for e in ast.walk(fn):
                if isinstance(e, ast.BinOp) and isinstance(e.op, ast.Div):
                    n += 1
                    bad = _is_int(e.left, types) and _is_int(e.right, types)
                    ctx.check(not bad, rule, site, "`%s`: %s" % (ast.unparse(e)[:60], "both operands are C integers - integer division%s" % (" (cdivision=True)" if cdiv else "") if bad else "floating-point division"),
                              "intdiv:" + ast.unparse(e)[:40])
    ctx.floor(rule, "divisions inspected", n, 8)


def shared_work(ctx, rule="R15.10"):
    n = 0
    for rel in KERNEL_FILES:
        mod = ctx.prog.mod(rel)
        for name, fn in sorted(mod.functions.items()):
            site = "%s::%s" % (rel, name)
            for w in [x for x in ast.walk(fn) if PR.is_parallel_with(x)]:
                for st in ast.walk(w):
                    tgt = None
                    if isinstance(st, ast.AugAssign):
                        tgt = st.target
                    elif isinstance(st, ast.Assign) and len(st.targets) == 1:
                        tgt = st.targets[0]
                    if not isinstance(tgt, ast.Subscript):
                        continue
                    n += 1
                    loops = [l for l in _loops_containing(w, st)]
                    in_pr = any(PR.is_prange(l) for l in loops)
                    ctx.check(in_pr, rule, site, "store `%s` inside the parallel block is %s" % (norm_stmt(st)[:60], "work-shared by a prange" if in_pr else "executed by EVERY thread (no enclosing prange): the threads race on the shared array"),
                              "every-thread:" + norm_stmt(st)[:40])
    ctx.floor(rule, "array stores inside parallel blocks", n, 2)


def branch_free_krige_sums(ctx, rule="R15.11"):
    """the two kriging sums are plain triple loops: any guard or `continue` inside them drops terms of the defining sums"""
    mod = ctx.prog.mod("krige/krigesum.pyx")
    for name in ("calc_field_krige", "calc_field_krige_and_variance"):
        fn = mod.functions.get(name)
        if fn is None:
            raise AnalysisError("anchor vanished: %s" % name)
        loops = [x for x in fn.body if isinstance(x, ast.For)]
        bad = [norm_stmt(x)[:60] for l in loops for x in ast.walk(l) if isinstance(x, (ast.If, ast.Continue, ast.Break, ast.While))]
        ctx.check(not bad, rule, "krige/krigesum.pyx::" + name, "the summation loops contain no guard, continue or break (every term of the sums is added)%s" % ("" if not bad else ": " + "; ".join(bad[:2])), "branch-free")


def double_precision(ctx, rule="R15.12"):
    """Every floating-point quantity of the kernels is a C double: declared scalars, memoryviews, parameters and return types.  A `float`
    accumulator still compiles (the += silently narrows) but rounds every partial sum / phase to single precision: results are then
    neither those of the defining sums in double precision nor, for the phases, exactly periodic."""
    import re

    n = 0
    for rel in KERNEL_FILES:
        mod = ctx.prog.mod(rel)
        for name, info in sorted(mod.pyx.functions.items()):
            site = "%s::%s" % (rel, name)
            decls = [("local " + k, v) for k, v in sorted(info.get("locals", {}).items())] + [("parameter " + p_["name"], p_.get("type")) for p_ in info.get("params", [])]
            if info.get("ret"):
                decls.append(("return type", info["ret"]))
            for what, ty in decls:
                if not ty:
                    continue
                base = re.sub(r"\bconst\b", "", ty).split("[")[0].strip()
                if base in ("double", "float", "long double", "np.float32_t", "np.float64_t", "float32_t", "float64_t", "DTYPE_t"):
                    n += 1
                    ctx.check(base in ("double", "np.float64_t", "float64_t"), rule, site, "%s is declared `%s` (all floating-point kernel data are double)" % (what, ty), "ctype:%s" % what.split()[-1])
    ctx.floor(rule, "floating-point declarations in the kernels", n, 60)


MODE_TERMS = {
    # kernel -> (accumulation target, the monomials one mode adds to one point)
    "summate": ("summed_modes[i]", [(1, ("cos(phase)", "z_1[j]"), ()), (1, ("sin(phase)", "z_2[j]"), ())]),
    "summate_fourier": ("summed_modes[i]", [(1, ("cos(phase)", "spectrum_factor[j]", "z_1[j]"), ()), (1, ("sin(phase)", "spectrum_factor[j]", "z_2[j]"), ())]),
    "summate_incompr": ("summed_modes[d, i]", [(1, ("cos(phase)", "proj[d]", "z_1[j]"), ()), (1, ("proj[d]", "sin(phase)", "z_2[j]"), ())]),
}


def mode_terms(ctx, rule="R15.13"):
    """What one mode adds to one point, as an expanded polynomial: weight * z_1 * cos(phase) + weight * z_2 * sin(phase), the weight
    (spectrum factor / projector component) on BOTH the cosine and the sine part."""
    from ..small import _sym_subst, monomials, sym_eval

    rel = "field/summator.pyx"
    mod = ctx.prog.mod(rel)
    n = 0
    for name, (target, want) in sorted(MODE_TERMS.items()):
        fn = mod.functions.get(name)
        if fn is None:
            raise AnalysisError("anchor vanished: kernel %s" % name)
        site = "%s::%s" % (rel, name)
        acc = [a for a in ast.walk(fn) if isinstance(a, (ast.AugAssign, ast.Assign)) and ast.unparse(a.target if isinstance(a, ast.AugAssign) else a.targets[0]) == target
               and not (isinstance(a, ast.Assign) and isinstance(a.value, ast.Constant))]
        if not acc:
            base_t = target.split("[")[0]
            other = sorted({ast.unparse(a.target) for a in ast.walk(fn) if isinstance(a, ast.AugAssign) and isinstance(a.target, ast.Subscript) and PR.base_name(a.target) == base_t})
            if other:
                n += 1
                ctx.violation(rule, site, "the mode contributions are accumulated into %s, the output layout is %s (components x points as the Python side reads it)" % (other, target), "output-index")
                continue
            raise AnalysisError("anchor vanished: accumulation into %s in %s" % (target, site))
        if len(acc) > 1:
            # unrolled / duplicated summation: what one mode adds is no longer one statement - not decided here, the loop rules still run
            ctx.undecided(rule, site, "%d statements accumulate into %s (unrolled or build-dependent variants): the per-mode term is not decided" % (len(acc), target))
            n += 1
            continue
        a = acc[0]
        # locals holding part of the term (an amplitude computed once per mode, ...) are followed to their definitions
        val = _sym_subst(a.value, sym_eval(fn.body, stop=a, opaque=("phase",)))
        if isinstance(a, ast.Assign):
            # x = x + e (the loader turns this into += for the kernels; kept for safety)
            ms = monomials(val)
            ms = [m_ for m_ in ms if m_ != (1, (target,), ())]
        else:
            if not isinstance(a.op, ast.Add):
                ctx.violation(rule, site, "mode contributions are combined with `%s=`" % type(a.op).__name__, "op")
                continue
            ms = monomials(val)
        n += 1
        ctx.check(ms == sorted(want), rule, site, "one mode adds %s" % " ".join("%s%s" % ("+" if s_ > 0 else "-", "*".join(nm)) + ("/" + "/".join(dn) if dn else "") for s_, nm, dn in ms), "mode-term")
    ctx.floor(rule, "mode-summation kernels", n, 3)


def accumulator_complete(ctx, rule="R15.14"):
    """A scalar that is summed up in a loop (`phase += ...`, `krig_fac += ...`) is used only after that loop has finished: no statement
    inside the summing loop other than the `+=` itself reads it (a use pulled into the loop works with partial sums).  A scalar that is
    initialised before a loop, plainly re-assigned inside it by an expression that does not read it, and read after the loop holds the
    contribution of the last pass only (a `+=` that became `=`)."""
    n = 0
    for rel in KERNEL_FILES:
        mod = ctx.prog.mod(rel)
        for name, fn in sorted(mod.functions.items()):
            info = mod.pyx.functions.get(name)
            if info is None:
                continue
            scal = {k for k, t in info["locals"].items() if t and "[" not in t}
            site = "%s::%s" % (rel, name)
            for lp in [x for x in ast.walk(fn) if isinstance(x, ast.For)]:
                augs = [a for a in lp.body if isinstance(a, ast.AugAssign) and isinstance(a.target, ast.Name) and a.target.id in scal and isinstance(a.op, (ast.Add, ast.Sub))]
                for s_ in sorted({a.target.id for a in augs}):
                    n += 1
                    readers = [st for st in lp.body if not (isinstance(st, ast.AugAssign) and isinstance(st.target, ast.Name) and st.target.id == s_)
                               and any(isinstance(x, ast.Name) and x.id == s_ and isinstance(x.ctx, ast.Load) for x in ast.walk(st))]
                    ctx.check(not readers, rule, site, "`%s` is summed in `for %s` and read only after that loop%s" % (s_, ast.unparse(lp.target), (": used inside it by `%s`" % norm_stmt(readers[0])[:60]) if readers else ""),
                              "partial-sum:%s:%s" % (s_, ast.unparse(lp.target)))
                for s_ in sorted({a.target.id for a in augs}):
                    for asg in [x for x in ast.walk(fn) if isinstance(x, ast.Assign) and len(x.targets) == 1 and isinstance(x.targets[0], ast.Name) and x.targets[0].id == s_]:
                        if not (isinstance(asg.value, ast.Constant) or (isinstance(asg.value, ast.UnaryOp) and isinstance(asg.value.operand, ast.Constant))):
                            n += 1
                            ctx.violation(rule, site, "the sum `%s` is re-assigned by `%s` (besides its constant reset): the value used afterwards is not the sum the loop built"
                                          % (s_, norm_stmt(asg)[:70]), "rewritten-sum:%s" % s_)
                # `+=` that became `=`
                owner, block = _block_of(fn, lp)
                if block is None:
                    continue
                idx = [i for i, x in enumerate(block) if x is lp][0]
                for st in lp.body:
                    if isinstance(st, ast.Assign) and len(st.targets) == 1 and isinstance(st.targets[0], ast.Name) and st.targets[0].id in scal:
                        s_ = st.targets[0].id
                        if any(isinstance(x, ast.Name) and x.id == s_ for x in ast.walk(st.value)):
                            continue
                        if any(isinstance(a, ast.AugAssign) and isinstance(a.target, ast.Name) and a.target.id == s_ for a in ast.walk(lp)):
                            continue
                        init_before = any(isinstance(b, ast.Assign) and len(b.targets) == 1 and isinstance(b.targets[0], ast.Name) and b.targets[0].id == s_ for b in block[:idx])
                        read_inside = any(isinstance(x, ast.Name) and x.id == s_ and isinstance(x.ctx, ast.Load) for y in lp.body if y is not st for x in ast.walk(y))
                        read_after = any(isinstance(x, ast.Name) and x.id == s_ and isinstance(x.ctx, ast.Load) for y in block[idx + 1:] for x in ast.walk(y))
                        if init_before and read_after and not read_inside:
                            n += 1
                            ctx.violation(rule, site, "`%s` is initialised before `for %s`, overwritten (not accumulated) in every pass by `%s` and read afterwards: only the last pass counts"
                                          % (s_, ast.unparse(lp.target), norm_stmt(st)[:60]), "overwritten:%s:%s" % (s_, ast.unparse(lp.target)))
    ctx.floor(rule, "scalar sums checked for use inside their own loop", n, 8)


def build_independent(ctx, rule="R15.15"):
    """The serial and the OpenMP build run the same statements: the compile-time name OPENMP is tested only in `set_num_threads` (how many
    threads) and around the `cimport openmp`, never inside a kernel (two hand-written variants of one sum cannot be kept equal by review)."""
    n = 0
    for rel in KERNEL_FILES:
        mod = ctx.prog.mod(rel)
        for name, fn in sorted(mod.functions.items()):
            if name == "set_num_threads":
                continue
            n += 1
            tests = [t for t in ast.walk(fn) if isinstance(t, (ast.If, ast.IfExp)) and any(isinstance(x, ast.Name) and x.id == "OPENMP" for x in ast.walk(t.test))]
            ctx.check(not tests, rule, "%s::%s" % (rel, name), "no compile-time OPENMP branch inside the kernel%s" % ("" if not tests else ": `if %s`" % ast.unparse(tests[0].test)), "openmp-branch")
    ctx.floor(rule, "kernel functions checked for build-dependent branches", n, 15)


UNSIGNED = ("size_t", "unsigned", "np.uint", "uint")


def kernel_shape(ctx, rule="R15.18"):
    """Shape of the kernel functions: a `def` kernel has one exit, its final `return` (an early return - a fast path, a degenerate-size
    shortcut - is a second implementation of the same sums that nothing keeps equal to the loops); integer locals are signed (an unsigned
    bound such as `f.shape[0] - 1` wraps around for an empty axis); a scalar that holds an element of a typed array has that array's
    element type (a pair count read from an int64 array into a 32-bit int overflows in `cnt**2`); no raw pointers."""
    n = 0
    for rel in KERNEL_FILES:
        mod = ctx.prog.mod(rel)
        for name, fn in sorted(mod.functions.items()):
            info = mod.pyx.functions.get(name)
            if info is None:
                continue
            site = "%s::%s" % (rel, name)
            types = dict(info.get("locals", {}))
            ptypes = {p_["name"]: p_.get("type") for p_ in info.get("params", [])}
            if info.get("kind") == "def" and name != "set_num_threads":
                rets = [r for r in ast.walk(fn) if isinstance(r, ast.Return)]
                n += 1
                ctx.check(len(rets) == 1 and fn.body and fn.body[-1] is rets[0], rule, site, "single exit: %d return statement(s), the last statement %s one" % (len(rets), "is" if (rets and fn.body[-1] is rets[-1]) else "is not"), "single-exit")
            for k, t in sorted(types.items()):
                if not t:
                    continue
                n += 1
                ctx.check(not any(u in t for u in UNSIGNED) and "*" not in t, rule, site, "local %s is declared `%s` (signed integers / doubles / memoryviews only)" % (k, t), "ctype-kind:%s" % k)
            # element type agreement
            for st in ast.walk(fn):
                if isinstance(st, ast.Assign) and len(st.targets) == 1 and isinstance(st.targets[0], ast.Name) and st.targets[0].id in types:
                    lt = (types[st.targets[0].id] or "").replace("const ", "").strip()
                    if "[" in lt or not lt:
                        continue
                    for sub in ast.walk(st.value):
                        if isinstance(sub, ast.Subscript) and isinstance(sub.value, ast.Name):
                            at = (types.get(sub.value.id) or ptypes.get(sub.value.id) or "")
                            if "[" not in at:
                                continue
                            et = at.replace("const ", "").split("[")[0].strip()
                            if et.startswith("np.int64") or et in ("long", "Py_ssize_t"):
                                n += 1
                                ctx.check(lt in ("np.int64_t", "long", "long long", "Py_ssize_t", "double"), rule, site,
                                          "`%s` (declared %s) takes a value of the %s array `%s`" % (st.targets[0].id, lt, et, sub.value.id), "narrowed:%s" % st.targets[0].id)
    ctx.floor(rule, "kernel shape obligations", n, 60)


def run(ctx):
    kernel_shape(ctx)
    strided_views(ctx)
    accumulator_complete(ctx)
    build_independent(ctx)
    mode_terms(ctx)
    double_precision(ctx)
    accumulator_reset(ctx)
    full_extent(ctx)
    zero_init(ctx)
    int_division(ctx)
    shared_work(ctx)
    branch_free_krige_sums(ctx)
