M = "covmodel/models.py"
T = "covmodel/tools.py"
TP = "covmodel/tpl_models.py"
B = "covmodel/base.py"
CASES = [
    dict(name="linear-valid-in-2d", file=M, expect="R02.2", old='        """Linear model is only valid in 1D."""\n        return dim < 2', new='        """Linear model is only valid in 1D."""\n        return dim < 3'),
    dict(name="spherical-valid-in-4d", file=M, expect="R02.2", old="        return dim < 4", new="        return dim <= 4"),
    dict(name="circular-check-removed", file=M, expect="R02.2",
         old='    def check_dim(self, dim):\n        """Circular model is only valid in 1D and 2D."""\n        return dim < 3\n', new=""),
    dict(name="jbessel-bound-too-low", file=M, expect="R02.2", old='        return {"nu": [self.dim / 2 - 1, 50.0]}', new='        return {"nu": [self.dim / 2 - 2, 50.0]}'),
    dict(name="superspherical-bound-dim-independent", file=M, expect="R02.2", old='        return {"nu": [(self.dim - 1) / 2, 50.0]}', new='        return {"nu": [0.0, 50.0]}'),
    dict(name="stable-alpha-up-to-3", file=M, expect="R02.2", old='        return {"alpha": [0, 2, "oc"]}', new='        return {"alpha": [0, 3, "oc"]}'),
    dict(name="stable-alpha-zero-allowed", file=M, expect="R02.2", old='        return {"alpha": [0, 2, "oc"]}', new='        return {"alpha": [0, 2, "cc"]}'),
    dict(name="tplsimple-default-below-bound", file=TP, expect="R02.2", old='        return {"nu": (self.dim + 1) / 2}', new='        return {"nu": self.dim / 2}'),
    dict(name="tplsimple-bound-off", file=TP, expect="R02.2", old='        return {"nu": [(self.dim + 1) / 2, 50.0]}', new='        return {"nu": [(self.dim - 1) / 2, 50.0]}'),
    dict(name="tplstable-alpha-open-2", file=TP, expect=None, kind="twin", old='            "alpha": (0, 2, "oc"),', new='            "alpha": (0, 2, "oo"),'),
    dict(name="hurst-upper-2", file=TP, expect="R02.2", old='        return {"hurst": (0.1, 1, "oo"), "len_low": (0.0, np.inf, "co")}\n\n    def cor(self, h):\n        """TPL with Gaussian modes', new='        return {"hurst": (0.1, 2, "oo"), "len_low": (0.0, np.inf, "co")}\n\n    def cor(self, h):\n        """TPL with Gaussian modes'),
    dict(name="no-warning", file=T, expect="R02.1",
         old="""    if not model.check_dim(dim):
        warnings.warn(
            f"Dimension {dim} is not appropriate for this model.",
            AttributeWarning,
        )
""", new="""    model.check_dim(dim)
"""),
    dict(name="check-after-store", file=T, expect="R02.1",
         old="""    if not model.check_dim(dim):
        warnings.warn(
            f"Dimension {dim} is not appropriate for this model.",
            AttributeWarning,
        )
    model._dim = int(dim)""",
         new="""    model._dim = int(dim)
    if not model.check_dim(dim):
        warnings.warn(
            f"Dimension {dim} is not appropriate for this model.",
            AttributeWarning,
        )"""),
    dict(name="check-before-latlon-forcing", file=T, expect="R02.1",
         old="""    dim = (3 + int(model.temporal)) if model.latlon else dim
    # set the dimension
    if dim < 1:
        raise ValueError("Only dimensions of d >= 1 are supported.")
    if not model.check_dim(dim):
        warnings.warn(
            f"Dimension {dim} is not appropriate for this model.",
            AttributeWarning,
        )
""",
         new="""    # set the dimension
    if dim < 1:
        raise ValueError("Only dimensions of d >= 1 are supported.")
    if not model.check_dim(dim):
        warnings.warn(
            f"Dimension {dim} is not appropriate for this model.",
            AttributeWarning,
        )
    dim = (3 + int(model.temporal)) if model.latlon else dim
"""),
    dict(name="dim-zero-allowed", file=T, expect="R02.1", old="    if dim < 1:\n        raise ValueError(\"Only dimensions of d >= 1 are supported.\")\n", new=""),
    dict(name="cov-yadrenko-no-chordal", file=B, expect="R02.3", old="        return self.covariance(great_circle_to_chordal(zeta, self.geo_scale))", new="        return self.covariance(zeta)"),
    dict(name="cor-yadrenko-unit-radius", file=B, expect="R02.3", old="        return self.correlation(great_circle_to_chordal(zeta, self.geo_scale))", new="        return self.correlation(great_circle_to_chordal(zeta))"),
    dict(name="latlon-not-forced-3d", file=T, expect=["R02.3", "R02.1"], old="    dim = (3 + int(model.temporal)) if model.latlon else dim\n", new=""),
    dict(name="twin-jbessel-bound-rewritten", kind="twin", file=M, old='        return {"nu": [self.dim / 2 - 1, 50.0]}', new='        return {"nu": [(self.dim - 2) / 2.0, 50.0]}'),
    dict(name="twin-linear-check-rewritten", kind="twin", file=M, old='        """Linear model is only valid in 1D."""\n        return dim < 2', new='        """Linear model is only valid in 1D."""\n        return dim == 1'),
    dict(name="check-dim-spatial-part-only", file="covmodel/tools.py", expect="R02.1", old="    if not model.check_dim(dim):", new="    if not model.check_dim(dim - int(model.temporal)):"),
]
